#!/venv/bin/python
"""setup_cmd: nothing to build (pure-Python sources are run from /repo's working tree);
verifies that /repo's sources import through the compat shim with the hook guard on and
that the hook is present."""
import os
import subprocess
import sys

HERE = os.path.dirname(os.path.dirname(os.path.abspath(__file__)))
sys.path.insert(0, HERE)
from sim.pool import base_env  # noqa: E402

code = (
    "import verif_compat, guppylang, guppylang_internals.cfg.analysis as A;"
    "assert guppylang.__file__.startswith('/repo/'), guppylang.__file__;"
    "assert hasattr(A, '_VERIF_SCHED'), 'hook missing';"
    "from guppylang import guppy\n"
    "print('setup ok: guppylang', guppylang.__version__, 'from', guppylang.__file__)"
)
r = subprocess.run([sys.executable, "-c", code], env=base_env(), cwd=HERE)
os.makedirs(os.path.join(HERE, "evidence"), exist_ok=True)
os.makedirs(os.path.join(HERE, "replays"), exist_ok=True)
sys.exit(r.returncode)
