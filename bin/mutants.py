#!/venv/bin/python
"""Sensitivity self-test: plants known defects (one at a time) into a scratch copy of
/repo's sources and runs the property's quick check against it through VERIF_REPO.

  mutants.py [--only C09,C33] [--budget 40] [--seeded]     (scratch under a mkdtemp, removed)

A planted defect that survives means the workload or fault mix has to change, not the
claim.  With --seeded the patches under /verif/seeded/<id>/patch.diff are used instead of
the table below.  Never touches /repo.
"""
import argparse
import json
import os
import shutil
import subprocess
import sys
import tempfile
import time

HERE = os.path.dirname(os.path.dirname(os.path.abspath(__file__)))
REPO = "/repo"
GI = "guppylang-internals/src/guppylang_internals/"
G = "guppylang/src/guppylang/"

# (property, name, file, old, new)
MUTANTS = [
    # ------------------------------------------------------------------ C09
    ("C09", "join-union-for-definite", GI + "cfg/analysis.py",
     "def_ass = set.intersection(*(def_ass for def_ass, _ in ts))",
     "def_ass = set.union(*(def_ass for def_ass, _ in ts))"),
    ("C09", "definite-initial-least-fixpoint", GI + "cfg/analysis.py",
     "return self.all_vars, self.maybe_ass_before_entry",
     "return self.ass_before_entry, self.maybe_ass_before_entry"),
    ("C09", "forward-no-requeue", GI + "cfg/analysis.py",
     "                queue.update(dict.fromkeys(bb.successors))\n",
     "                pass\n"),
    ("C09", "liveness-forgets-kill", GI + "cfg/analysis.py",
     "x: b for x, b in live_after.items() if x not in stats.assigned",
     "x: b for x, b in live_after.items()"),
    ("C09", "liveness-eq-compares-lengths", GI + "cfg/analysis.py",
     "return live1.keys() == live2.keys()", "return len(live1) == len(live2)"),
    ("C09", "no-dummy-requeue-backward(F1)", GI + "cfg/analysis.py",
     "                    queue.update(dict.fromkeys(bb.dummy_predecessors))\n",
     "                    pass\n"),
    ("C09", "no-dummy-requeue-forward(F1)", GI + "cfg/analysis.py",
     "                    queue.update(dict.fromkeys(bb.dummy_successors))\n",
     "                    pass\n"),
    ("C09", "augassign-target-not-used", GI + "cfg/bb.py",
     "        self._update_used(node.target)  # The target is also used\n", ""),
    ("C09", "inout-not-live-at-exit", GI + "cfg/cfg.py",
     "stats[self.exit_bb].used |= {x: InoutReturnSentinel(var=x) for x in inout_vars}",
     "pass"),
    # ------------------------------------------------------------------ C10
    ("C10", "rows-match-over-set(F2)", GI + "checker/cfg_checker.py",
     "for x in dict.fromkeys([*map1, *map2]):", "for x in map1.keys() | map2.keys():"),
    ("C10", "worklist-is-a-set(F3)", GI + "cfg/analysis.py",
     "        queue = dict.fromkeys(bbs)\n", "        queue = dict.fromkeys(set(bbs))\n"),
    ("C10", "sort-vars-by-identity", GI + "compiler/cfg_compiler.py",
     "return sorted(row, key=functools.cmp_to_key(compare_var))",
     "return sorted(row, key=lambda p: (not p.ty.droppable, id(p.ty), str(p)))"),
    ("C10", "live-rows-from-a-set", GI + "checker/cfg_checker.py",
     "        [ctx.locals[x] for x in cfg.live_before[succ] if x in ctx.locals]\n        for succ in bb.successors\n",
     "        [ctx.locals[x] for x in set(cfg.live_before[succ]) if x in ctx.locals]\n        for succ in bb.successors\n"),
    ("C10", "function-name-with-str-hash", GI + "definition/function.py",
     "            self.name, hugr_ty.body.input, hugr_ty.body.output, hugr_ty.params\n",
     "            self.name + str(hash(self.name) % 7), hugr_ty.body.input, hugr_ty.body.output, hugr_ty.params\n"),
    # ------------------------------------------------------------------ C11
    ("C11", "check-without-reset", GI + "engine.py",
     "        #  need to store and check if any dependencies have changed.\n        self.reset()\n",
     "        #  need to store and check if any dependencies have changed.\n"),
    ("C11", "plain-string-sort(F5)", GI + "compiler/cfg_compiler.py",
     "        if (not p1.ty.droppable, _natural_key(str(p1)))\n        < (not p2.ty.droppable, _natural_key(str(p2)))\n",
     "        if (not p1.ty.droppable, str(p1))\n        < (not p2.ty.droppable, str(p2))\n"),
    ("C11", "rebind-user-namespace(F4)", GI + "checker/func_checker.py",
     "            globals = nested_globals\n",
     "            globals.f_locals[func_def.name] = GuppyDefinition(func)\n"),
    # (two candidates from the design were dropped as *equivalent* for C11 on this engine:
    #  removing the insert-return-vars guard and keeping to_check_worklist across reset()
    #  change nothing a history can observe, because check() re-checks from scratch and
    #  overwrites that worklist; the first one is a program-level defect (C13), not C11)
    ("C11", "type-worklist-survives-failed-check", GI + "engine.py",
     "        self.to_check_worklist = {}\n        self.types_to_check_worklist = {}\n",
     "        self.to_check_worklist = {}\n        self.types_to_check_worklist = getattr(self, 'types_to_check_worklist', {})\n"),
    ("C11", "parsed-cache-survives-check", GI + "engine.py",
     "        self.parsed = {}\n        self.checked = {}\n",
     "        self.parsed = getattr(self, 'parsed', {})\n        self.checked = {}\n"),
    ("C11", "struct-methods-registered-once", GI + "engine.py",
     "            for method_def in defn.generated_methods():\n                DEF_STORE.register_def(method_def, None)\n",
     "            for method_def in defn.generated_methods():\n                if method_def.name in DEF_STORE.impls[defn.id]:\n                    continue\n                DEF_STORE.register_def(method_def, None)\n"),
    # ------------------------------------------------------------------ C23
    ("C23", "no-finally", GI + "tracing/builtins_mock.py",
     "    try:\n        yield\n    finally:\n", "    yield\n    if True:\n"),
    ("C23", "old-computed-after-update", GI + "tracing/builtins_mock.py",
     "    old = {x: f.__globals__[x] for x in mock if x in f.__globals__}\n    f.__globals__.update(mock)\n",
     "    f.__globals__.update(mock)\n    old = {x: f.__globals__[x] for x in mock if x in f.__globals__}\n"),
    ("C23", "absent-names-not-deleted", GI + "tracing/builtins_mock.py",
     "            if x not in old:\n                del f.__globals__[x]\n",
     "            if x not in old:\n                pass\n"),
    ("C23", "restore-only-when-tracing-succeeds", GI + "tracing/builtins_mock.py",
     "    try:\n        yield\n    finally:\n", "    try:\n        yield\n    except GeneratorExit:\n        raise\n    else:\n"),
    ("C23", "restore-skips-len", GI + "tracing/builtins_mock.py",
     "        f.__globals__.update(old)\n",
     "        f.__globals__.update({k: v for k, v in old.items() if not callable(v) or k != 'len'})\n"),
    # ------------------------------------------------------------------ C28
    ("C28", "with-seed-mutates-shared-simulator(F6)", G + "emulator/instance.py",
     "        simulator = copy.copy(self._options._simulator)\n",
     "        simulator = self._options._simulator\n"),
    ("C28", "with-option-mutates-parent", G + "emulator/instance.py",
     "        return replace(self, _options=replace(self._options, **kwargs))",
     "        for k, v in kwargs.items():\n            object.__setattr__(self._options, k, v)\n        return replace(self, _options=replace(self._options))"),
    ("C28", "shot-offset-dropped-on-seed", G + "emulator/instance.py",
     "        new_options = replace(self._options, _seed=value, _simulator=simulator)",
     "        new_options = replace(self._options, _seed=value, _simulator=simulator, _shot_offset=0)"),
    ("C28", "builder-args-shared-dict", G + "emulator/builder.py",
     "            return replace(self, _custom_args=self._custom_args | {key: value})",
     "            self._custom_args[key] = value\n            return replace(self, _custom_args=self._custom_args)"),
    ("C28", "n-processes-ignored-in-run", G + "emulator/instance.py",
     "            shot_increment=self.shot_increment,\n            n_processes=self.n_processes,",
     "            shot_increment=1,\n            n_processes=self.n_processes,"),
    # ------------------------------------------------------------------ C33
    ("C33", "disable-exit-writes-constant", GI + "experimental.py",
     None, None),   # handled specially below (second __exit__)
    ("C33", "exit-skips-restore-on-exception", GI + "experimental.py",
     "        global EXPERIMENTAL_FEATURES_ENABLED\n        EXPERIMENTAL_FEATURES_ENABLED = self.original\n\n\nclass disable",
     "        global EXPERIMENTAL_FEATURES_ENABLED\n        if exc_type is None:\n            EXPERIMENTAL_FEATURES_ENABLED = self.original\n\n\nclass disable"),
    ("C33", "list-comprehension-gate-lost", GI + "cfg/builder.py",
     "    def visit_ListComp(self, node: ast.ListComp) -> DesugaredListComp:\n        check_lists_enabled(node)\n",
     "    def visit_ListComp(self, node: ast.ListComp) -> DesugaredListComp:\n"),
    ("C33", "closure-gate-only-at-top-level", GI + "checker/func_checker.py",
     "    if captured:\n        _, loc = captured[next(iter(captured.keys()))]\n        check_capturing_closures_enabled(loc)",
     "    if captured and not isinstance(bb.containing_cfg.exit_bb, type(None)) and len(parent_cfg.bbs) < 4:\n        _, loc = captured[next(iter(captured.keys()))]\n        check_capturing_closures_enabled(loc)"),
    ("C33", "modifier-gate-cached", GI + "experimental.py",
     "def check_modifiers_enabled(loc: AstNode | None = None) -> None:\n    if not EXPERIMENTAL_FEATURES_ENABLED:",
     "_MOD_OK: list[bool] = []\n\n\ndef check_modifiers_enabled(loc: AstNode | None = None) -> None:\n    if EXPERIMENTAL_FEATURES_ENABLED:\n        _MOD_OK.append(True)\n    if not EXPERIMENTAL_FEATURES_ENABLED and not _MOD_OK:"),
]


def apply(root: str, m) -> bool:
    prop, name, rel, old, new = m
    path = os.path.join(root, rel)
    s = open(path).read()
    if name == "disable-exit-writes-constant":
        i = s.index("class disable_experimental_features")
        j = s.index("EXPERIMENTAL_FEATURES_ENABLED = self.original", i)
        s = s[:j] + "EXPERIMENTAL_FEATURES_ENABLED = True" + s[j + len("EXPERIMENTAL_FEATURES_ENABLED = self.original"):]
    else:
        if s.count(old) != 1 and name != "worklist-is-a-set(F3)":
            print(f"  !! pattern of {prop}/{name} matches {s.count(old)} times", file=sys.stderr)
            return False
        s = s.replace(old, new)
    open(path, "w").write(s)
    return True


def copy_tree(dst: str) -> None:
    for d in ("guppylang", "guppylang-internals", "tests"):
        shutil.copytree(os.path.join(REPO, d), os.path.join(dst, d),
                        ignore=shutil.ignore_patterns("__pycache__", "*.pyc", "benchmarks"))


def run_check(prop: str, root: str, budget: int) -> tuple[int, str, float]:
    env = dict(os.environ, VERIF_REPO=root, VERIF_BUDGET_S=str(budget), VERIF_NO_EVIDENCE="1")
    t = time.time()
    r = subprocess.run([sys.executable, os.path.join(HERE, "bin", "check.py"), prop,
                        "--tier", "quick"], env=env, capture_output=True, text=True)
    return r.returncode, r.stdout + r.stderr, time.time() - t


def main() -> int:
    ap = argparse.ArgumentParser()
    ap.add_argument("--only", default="")
    ap.add_argument("--budget", type=int, default=40)
    ap.add_argument("--seeded", action="store_true")
    ap.add_argument("--names", default="")
    ap.add_argument("--verify-replay", action="store_true")
    a = ap.parse_args()
    only = {x for x in a.only.split(",") if x}
    names = {x for x in a.names.split(",") if x}
    todo = []
    if a.seeded:
        sd = os.path.join(HERE, "seeded")
        for d in sorted(os.listdir(sd)):
            meta = os.path.join(sd, d, "meta.json")
            if os.path.exists(meta):
                m = json.load(open(meta))
                if m.get("neutralised_by_fix"):
                    continue       # no longer breaks the property on the repaired tree
                todo.append((m["property"], d, os.path.join(sd, d, "patch.diff"), None, None))
    else:
        todo = list(MUTANTS)
    results = []
    tmp = tempfile.mkdtemp(prefix="verif-mut-")
    try:
        for m in todo:
            prop, name = m[0], m[1]
            if (only and prop not in only) or (names and name not in names):
                continue
            root = os.path.join(tmp, "tree")
            shutil.rmtree(root, ignore_errors=True)
            os.makedirs(root)
            copy_tree(root)
            if a.seeded:
                r = subprocess.run(["patch", "-p1", "-s", "-d", root, "-i", m[2]],
                                   capture_output=True, text=True)
                ok = r.returncode == 0
                if not ok:
                    print(r.stdout, r.stderr)
            else:
                ok = apply(root, m)
            if not ok:
                results.append((prop, name, "NOT-APPLIED", 0))
                continue
            code, out, dt = run_check(prop, root, a.budget)
            verdict = {0: "SURVIVED", 1: "caught", 2: "HARNESS-ERROR"}.get(code, f"exit{code}")
            if code == 1 and a.verify_replay:
                # the replay file of the first violation must reproduce it in a fresh process
                rp = next((l.split("replay=")[1].split()[0] for l in out.splitlines()
                           if l.startswith("VIOLATION")), None)
                rr = subprocess.run([sys.executable, os.path.join(HERE, "bin", "check.py"), prop,
                                     "--replay", rp], env=dict(os.environ, VERIF_REPO=root),
                                    capture_output=True, text=True) if rp else None
                ok_r = rr is not None and rr.returncode == 1 and f"replay={rp}" in rr.stdout
                verdict += "+replayed" if ok_r else "+REPLAY-FAILED"
                if not ok_r:
                    print((rr.stdout + rr.stderr)[-800:] if rr else "no replay path")
            cls = sorted({l.split("class=")[1].split()[0] for l in out.splitlines() if "class=" in l})
            print(f"{prop:4s} {name:42s} {verdict:14s} {dt:6.1f}s {','.join(cls)}", flush=True)
            if code == 2:
                print(out[-1500:])
            results.append((prop, name, verdict, dt))
    finally:
        shutil.rmtree(tmp, ignore_errors=True)
        for f in os.listdir(os.path.join(HERE, "replays")):
            if f.endswith(".json"):
                os.remove(os.path.join(HERE, "replays", f))
    surv = [r for r in results if r[2] not in ("caught", "caught+replayed")]
    print(f"\n{len(results) - len(surv)}/{len(results)} planted defects caught; not caught: "
          f"{[(p, n, v) for p, n, v, _ in surv]}")
    return 0 if not surv else 1


if __name__ == "__main__":
    sys.exit(main())
