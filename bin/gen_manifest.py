#!/usr/bin/env python3
"""Generates /verif/MANIFEST.json from the tables below and validates it."""
import json
import os
import sys

HERE = os.path.dirname(os.path.dirname(os.path.abspath(__file__)))
PY = "/venv/bin/python"

NA = {
    "C01": "lowering validity is a pure function of the accepted program; no schedule, fault or shared state in the property",
    "C02": "error-vs-crash is a pure function of the program text; nothing to schedule or fault",
    "C03": "program+input -> result stream is a pure function; and HUGR compiled by /repo cannot be executed in this sandbox (no tket.bool lowering in selene 0.4.3)",
    "C04": "operator semantics are a pure function of the operands; not executable here",
    "C05": "evaluation order of one program is fixed by the program; would need a HUGR interpreter that does not exist here",
    "C06": "linearity accept/reject is a pure function of the program",
    "C07": "borrowed-argument write-back is program+input -> results; pure, and not executable here",
    "C08": "definedness/type-join accept/reject is a pure function of the program (the schedule-sensitivity of the code underneath is decided under C09/C10)",
    "C12": "unification is a pure function of two types and a substitution",
    "C13": "instantiation/monomorphisation is a pure function; runtime half not executable here",
    "C14": "copy/drop classification is a pure function of a type",
    "C15": "overload resolution is a pure function of the overload set and the arguments",
    "C16": "coercion direction/value is a pure function; value half not executable here",
    "C17": "literal range check/value is a pure function; value half not executable here",
    "C18": "range() sequence is program+input -> results; pure and not executable here",
    "C19": "array access semantics are program+input -> results/panic; pure and not executable here",
    "C20": "gate semantics are circuit -> state vector; pure and not executable here",
    "C21": "comptime vs regular agreement compares two pure functions at run time; not executable here",
    "C22": "ownership errors while tracing are a pure function of the traced body",
    "C24": "unitary-context rejection is a pure function of flags and call shapes",
    "C25": "modifier lowering is a pure function of the program",
    "C26": "pytket loading is a pure function of the circuit; runtime half not executable here",
    "C27": "Stack/PriorityQueue are sequential deterministic data structures whose history is just their input; no fault or interleaving in the property, and compiled methods cannot be executed here",
    "C29": "diagnostic rendering is a pure function of diagnostic and source",
    "C30": "span algebra is pure",
    "C31": "type print/parse round trip is pure",
    "C32": "no-silently-ignored-syntax is a pure function of the program",
}

CHECKS = {}  # filled by sim.registry when present


def load_checks():
    sys.path.insert(0, HERE)
    try:
        from sim.registry import MANIFEST_CHECKS
        return MANIFEST_CHECKS
    except Exception as e:  # noqa: BLE001
        print("no registry yet:", e)
        return {}


def main():
    checks = load_checks()
    props = [json.loads(l)["id"] for l in open(os.path.join(HERE, "properties.jsonl"))]
    entries = []
    for pid in props:
        if pid not in checks:
            continue
        c = checks[pid]
        entries.append({
            "property_id": pid,
            "quick_cmd": f"{PY} bin/check.py {pid} --tier quick",
            "thorough_cmd": f"{PY} bin/check.py {pid} --tier thorough",
            "evidence_file": f"/verif/evidence/{pid}.json",
            "replay_cmd_template": f"{PY} bin/check.py {pid} --replay {{path}}",
            "engine": "detsim",
            "level_claimed": {"category": c["level"], "text": c["text"],
                              "design_ref": c["design_ref"]},
            "level_note": c["note"],
            "technique": c["technique"],
        })
    na = [{"property_id": p, "reason": NA.get(p, "not yet built in this session; see DESIGN.md")}
          for p in props if p not in checks]
    man = {
        "version": 1,
        "setup_cmd": f"{PY} bin/setup.py",
        "hooks": {
            "guard": "CQCL_GUPPYLANG_VERIF_SCHED",
            "enable": "pure-Python sources, nothing to build: checks run /repo's working tree via PYTHONPATH=/verif/compat:/repo/guppylang/src:/repo/guppylang-internals/src with CQCL_GUPPYLANG_VERIF_SCHED=1 and guppylang_internals.cfg.analysis._VERIF_SCHED set to the harness' worklist factory",
            "baseline_off_cmd": "cd /repo && env -u CQCL_GUPPYLANG_VERIF_SCHED /venv/bin/python -m pytest -ra -q -p no:cacheprovider --timeout=900 --continue-on-collection-errors",
            "source_commits": HOOK_COMMITS,
            "add_only": True,
        },
        "engines": [{
            "name": "detsim", "path": "/verif/sim",
            "serves_properties": [e["property_id"] for e in entries],
            "kind_free_text": "deterministic simulation kernel: one seeded choice source per run drives workload generation, worklist scheduling and fault placement; every run executes /repo's real code in a fork of a warm parent; violations are minimised to a replay file",
        }],
        "checks": entries,
        "not_applicable": na,
        "notes": "See DESIGN.md. Exit codes of bin/check.py: 0 held, 1 violation (VIOLATION line), 2 harness error.",
    }
    path = os.path.join(HERE, "MANIFEST.json")
    json.dump(man, open(path, "w"), indent=1)
    try:
        import jsonschema
        jsonschema.validate(man, json.load(open("/root/.vp/MANIFEST.schema.json")))
        print("MANIFEST.json valid;", len(entries), "checks,", len(na), "not applicable")
    except ImportError:
        print("jsonschema not available; wrote without validating")


HOOK_COMMITS = ["4300a1b"]

if __name__ == "__main__":
    main()
