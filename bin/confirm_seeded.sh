#!/bin/bash
# Confirms a sub-agent's seeded change in its scratch worktree and files it under
# /verif/seeded/<id>/.  usage: confirm_seeded.sh <worktree> <id> <property>
# (demo must exit 1 with the change and 0 without; the repo's own tests, run against the
# worktree's sources through the shim, must show only the baseline failure branch4)
WT=$1; ID=$2; PROP=$3
set -u
cd "$WT" || exit 2
export PYTHONDONTWRITEBYTECODE=1 PYTHONPATH=/tmp/shim:$WT/guppylang/src:$WT/guppylang-internals/src
git diff -- guppylang guppylang-internals > /tmp/confirm-$ID.diff
[ -s /tmp/confirm-$ID.diff ] || { echo "no change in $WT"; exit 2; }
timeout 900 /venv/bin/python demo.py > /tmp/confirm-$ID.with.log 2>&1; with=$?
git checkout -q -- guppylang guppylang-internals
timeout 900 /venv/bin/python demo.py > /tmp/confirm-$ID.without.log 2>&1; without=$?
git apply /tmp/confirm-$ID.diff || exit 2
tests=$(timeout 1800 /venv/bin/python -m pytest tests/error tests/diagnostics tests/emulator tests/test_type_printing.py -p verif_compat -p no:cacheprovider -n 6 -q 2>&1 | grep -E "^FAILED|passed|failed" | tr '\n' ' ')
echo "demo with=$with without=$without; tests: $tests"
mkdir -p /verif/seeded/$ID
cp /tmp/confirm-$ID.diff /verif/seeded/$ID/patch.diff
cp demo.py /verif/seeded/$ID/demo.py
tail -5 /tmp/confirm-$ID.with.log > /verif/seeded/$ID/demo_output_with_change.txt
cat > /verif/seeded/$ID/meta.json <<J
{
 "id": "$ID",
 "property": "$PROP",
 "what": "TODO",
 "needs_to_manifest": "TODO",
 "origin": "independent sub-agent (round 4: given only the property text, a scratch worktree and the list of ideas already used in rounds 1-3)",
 "base_commit": "$(git rev-parse --short HEAD)",
 "confirmed": {
  "demo_exit_with_change": $with,
  "demo_exit_without_change": $without,
  "repo_tests_with_change": "$(echo $tests | sed 's/"/\\"/g')",
  "how": "demo.py run in the sub-agent's worktree with and without patch.diff; /repo's own tests (tests/error tests/diagnostics tests/emulator tests/test_type_printing.py) run against the patched sources through the compat shim: only the baseline failure branch4 (and the known -n flake in test_wasm_errors) may remain"
 }
}
J
rm -f /tmp/confirm-$ID.*
