#!/bin/bash
# False-alarm soak: every check, several VERIF_SEED values, on the unchanged tree.
# usage: soak.sh "<seeds>" "<props>" [tier]
cd "$(dirname "$0")/.."
SEEDS=${1:-"1 2 3 4"}; PROPS=${2:-"C09 C10 C11 C23 C28 C33"}; TIER=${3:-quick}
bad=0
for s in $SEEDS; do for p in $PROPS; do
  out=$(VERIF_SEED=$s VERIF_NO_EVIDENCE=1 /venv/bin/python bin/check.py $p --tier $TIER 2>&1); rc=$?
  echo "seed=$s $p exit=$rc $(echo "$out" | tail -1)"
  if [ $rc -ne 0 ]; then bad=1; echo "$out" | tail -15; fi
done; done
exit $bad
