#!/bin/bash
""":"
exec "$(dirname "$0")/try.sh" "$0" "$@"
":"""
# Validates the C33 probe-program table against the tree under test: every
# (construct x context) must be rejected with the experimental error when the gate is
# closed and accepted (check and compile) when open; every faulty variant must be
# rejected with a GuppyError in both gate states, and not with the experimental error
# when the gate is open.  Prints the combinations that do not fit (candidates for
# c33_programs.EXCLUDED, after deciding whether they are genuine findings).
import sys, itertools, warnings
import verif_compat  # noqa
from sim import genv
from sim.props import c33_programs as P
import guppylang_internals.experimental as X
from guppylang_internals.engine import ENGINE
warnings.simplefilter("ignore")
genv.warm_imports()

def is_exp(kind, o):
    return o["error"] == "ExperimentalFeatureError" or (
        kind.startswith("closure") and o["error"] == "UnsupportedError" and "Capturing closures" in o["text"])

bad = 0; n = 0
for kind, ctx in itertools.product(P.ALL_KINDS, P.CONTEXTS):
    faults = [None] + [(fk, pos) for fk in P.FAULTS for pos in P.POSITIONS
                       if (pos != "inside" or P.has_inside(kind)) and P.usable(kind, ctx, (fk, pos))]
    for fault in faults:
        src = P.program(kind, ctx, fault)
        for gate in (False, True):
            for comp in ((False, True) if fault is None else (False,)):
                ENGINE.reset(); X.EXPERIMENTAL_FEATURES_ENABLED = gate
                m = genv.make_module("tbl", src)
                o = genv.outcome((lambda: m.main.compile_function()) if comp else (lambda: m.main.check()))
                n += 1
                gated = kind not in P.UNGATED
                if o["kind"] == "exception":
                    msg = f"CRASH {o['error']}: {o['text'][:80]}"
                elif fault is None:
                    if gate or not gated:
                        msg = None if o["kind"] == "ok" else f"rejected while allowed: {o['error']}"
                    else:
                        msg = None if (o["kind"] != "ok" and is_exp(kind, o)) else f"closed gate: {genv.short(o)}"
                else:
                    if o["kind"] == "ok":
                        msg = "faulty program accepted"
                    elif gate and is_exp(kind, o):
                        msg = "experimental error with the gate open"
                    else:
                        msg = None
                if msg:
                    bad += 1
                    print(f"{kind:22s} {ctx:13s} fault={fault} gate={'open' if gate else 'closed'} comp={comp}: {msg}")
print(f"{n} checks, {bad} do not fit")
sys.exit(1 if bad else 0)
