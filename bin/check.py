#!/venv/bin/python
"""Entry point of every registered check.

  check.py <ID> --tier quick|thorough      explore; exit 0 / 1 (VIOLATION) / 2 (harness)
  check.py <ID> --replay <file>            re-execute a replay file in a fresh process
  check.py <ID> --selftest [N]             determinism self-test (digests of N runs)
Reads VERIF_SEED (default 0), VERIF_TIER, VERIF_WORKERS, VERIF_BUDGET_S.
"""
import argparse
import importlib
import os
import sys

HERE = os.path.dirname(os.path.dirname(os.path.abspath(__file__)))
sys.path.insert(0, HERE)
os.chdir(HERE)


def main() -> int:
    ap = argparse.ArgumentParser()
    ap.add_argument("prop")
    ap.add_argument("--tier", default=os.environ.get("VERIF_TIER", "quick"),
                    choices=["quick", "thorough"])
    ap.add_argument("--replay")
    ap.add_argument("--selftest", nargs="?", const=200, type=int)
    a = ap.parse_args()
    seed = int(os.environ.get("VERIF_SEED", "0") or 0)
    from sim import framework
    from sim.registry import PROPS
    pid = a.prop.upper()
    if pid not in PROPS:
        print(f"unknown property {pid}; have {sorted(PROPS)}", file=sys.stderr)
        return 2
    prop = importlib.import_module(PROPS[pid])
    try:
        if a.replay:
            return getattr(prop, "replay_main", None)(a.replay) if hasattr(prop, "replay_main") \
                else framework.generic_replay(prop, a.replay)
        if a.selftest:
            return getattr(prop, "selftest_main")(seed, a.selftest) if hasattr(prop, "selftest_main") \
                else framework.selftest_determinism(prop, seed, a.selftest)
        if hasattr(prop, "main"):
            return prop.main(a.tier, seed)
        return framework.generic_main(prop, a.tier, seed)
    except framework.HarnessError as e:
        print(f"HARNESS-ERROR property={pid}: {e}", file=sys.stderr)
        return 2


if __name__ == "__main__":
    sys.exit(main())
