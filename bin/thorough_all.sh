#!/bin/bash
# Every check's thorough tier, one after the other.  usage: thorough_all.sh "<props>"
cd "$(dirname "$0")/.."
bad=0
for p in ${1:-C11 C33 C09 C23 C28 C10}; do
  out=$(VERIF_NO_EVIDENCE=${VERIF_NO_EVIDENCE:-1} /venv/bin/python bin/check.py $p --tier thorough 2>&1); rc=$?
  echo "$p exit=$rc $(echo "$out" | tail -1)"
  if [ $rc -ne 0 ]; then bad=1; echo "$out" | tail -20; fi
done
exit $bad
