#!/bin/bash
# Determinism self-tests of all six checks: the same seeds at 16 and 3 workers and (where
# the hash seed is not itself the explored variable) under a second PYTHONHASHSEED must
# give identical per-run event-log digests.  usage: selftest.sh [N per property]
cd "$(dirname "$0")/.."
bad=0
for spec in "C09 ${1:-4000}" "C33 ${1:-400}" "C28 ${1:-240}" "C23 ${1:-40}" "C11 ${1:-24}" "C10 ${1:-64}"; do
  set -- $spec
  /venv/bin/python bin/check.py $1 --selftest $2 || bad=1
done
exit $bad
