#!/bin/bash
# Ad-hoc: run a python script/snippet against /repo's sources (or $VERIF_REPO) through the shim,
# with the same pinned environment the checks use.  usage: try.sh script.py [args] | try.sh -c '...'
R=${VERIF_REPO:-/repo}
export PYTHONDONTWRITEBYTECODE=1 PYTHONHASHSEED=${PYTHONHASHSEED:-0} CQCL_GUPPYLANG_VERIF_SCHED=1
export PYTHONPATH=/verif:/verif/compat:$R/guppylang/src:$R/guppylang-internals/src
exec /venv/bin/python "$@"
