"""Regenerates the C28 fixture packages with the guppylang installed in /venv (1.0.4).
Run with a plain environment: /venv/bin/python fixtures/make_fixtures.py"""
import os
HERE = os.path.dirname(os.path.abspath(__file__))
from guppylang import guppy
from guppylang.std.builtins import result, panic
from guppylang.std.quantum import qubit, h, measure
import guppylang
print(guppylang.__version__, guppylang.__file__)
@guppy
def main() -> None:
    for _ in range(6):
        q = qubit()
        h(q)
        result("b", measure(q).read())
@guppy
def main_panic() -> None:
    q0 = qubit(); h(q0)
    q1 = qubit(); h(q1)
    q2 = qubit(); h(q2)
    a = measure(q0).read(); b = measure(q1).read(); c = measure(q2).read()
    result("a", a)
    if a and b and c:
        panic("boom")
    result("c", c)
open(os.path.join(HERE,"prog.hugr"),"wb").write(main.compile().to_bytes())
open(os.path.join(HERE,"prog_panic.hugr"),"wb").write(main_panic.compile().to_bytes())
