"""Compat shim: lets /repo's guppylang 0.21.6 sources run on the dependency versions
installed in /venv (hugr 0.18, tket-exts 0.14).  Three patch points, each restoring an
API the newer dependency removed.  Imported before `guppylang`.  See DESIGN.md App. A.
"""
import functools
import json

import hugr
import hugr.ext
import hugr.val
import tket_exts
from hugr.hugr.base import Hugr

_INSTALLED = False


def install() -> None:
    global _INSTALLED
    if _INSTALLED:
        return
    _INSTALLED = True

    # (a) tket_exts 0.14 dropped `tket_exts.bool()`
    if not hasattr(tket_exts, "bool"):
        B = {"t": "Opaque", "extension": "tket.bool", "extension_version": "0.2.0",
             "id": "bool", "args": [], "bound": "C"}
        S2 = {"t": "Sum", "s": "Unit", "size": 2}

        def op(n, i, o):
            return {"extension": "tket.bool", "name": n, "description": n,
                    "binary": False,
                    "signature": {"params": [], "body": {"input": i, "output": o}}}

        EXT = {
            "version": "0.2.0", "name": "tket.bool",
            "types": {"bool": {"extension": "tket.bool", "name": "bool", "params": [],
                               "description": "opaque bool",
                               "bound": {"b": "Explicit", "bound": "C"}}},
            "operations": {
                "and": op("and", [B, B], [B]), "or": op("or", [B, B], [B]),
                "xor": op("xor", [B, B], [B]), "eq": op("eq", [B, B], [B]),
                "not": op("not", [B], [B]),
                "make_opaque": op("make_opaque", [S2], [B]),
                "read": op("read", [B], [S2]),
            },
        }
        tket_exts.bool = functools.cache(
            lambda: hugr.ext.Extension.from_json(json.dumps(EXT))
        )

    # (b) hugr 0.14 exposed node metadata as `node.metadata`
    orig = Hugr._add_node

    def _add_node(self, *a, **k):
        n = orig(self, *a, **k)
        object.__setattr__(n, "metadata", self[n].metadata)
        if n.idx == self.module_root.idx:
            self.module_root = n
        return n

    Hugr._add_node = _add_node

    # (c) hugr.val.Extension lost its `extensions=` keyword
    init = hugr.val.Extension.__init__

    def _init(self, *a, extensions=None, **k):
        init(self, *a, **k)

    hugr.val.Extension.__init__ = _init


install()
