"""Driver side of the zygote pool: spawns pinned interpreters, feeds them jobs, collects
results, enforces wall caps.  A job whose child is killed or raises is a *harness error*
(never a pass, never a VIOLATION)."""
from __future__ import annotations

import ctypes
import json
import os
import selectors
import signal
import struct
import subprocess
import sys
import time

VERIF = os.path.dirname(os.path.dirname(os.path.abspath(__file__)))
PY = sys.executable
REPO = os.environ.get("VERIF_REPO", "/repo")
ADDR_NO_RANDOMIZE = 0x0040000


def disable_aslr() -> bool:
    """personality(ADDR_NO_RANDOMIZE): inherited by every process spawned afterwards."""
    try:
        libc = ctypes.CDLL(None, use_errno=True)
        cur = libc.personality(0xFFFFFFFF)
        if cur == -1:
            return False
        return libc.personality(cur | ADDR_NO_RANDOMIZE) != -1
    except Exception:  # noqa: BLE001
        return False


def base_env(hashseed: str = "0", hook: bool = True) -> dict[str, str]:
    env = {k: v for k, v in os.environ.items()
           if k in ("PATH", "HOME", "LANG", "LC_ALL", "TMPDIR", "VERIF_REPO", "VERIF_TMP",
                    "VERIF_IMMORTAL")}
    env["PYTHONHASHSEED"] = hashseed
    env["PYTHONDONTWRITEBYTECODE"] = "1"
    env["PYTHONPATH"] = os.pathsep.join([
        os.path.join(VERIF, "compat"), VERIF,
        os.path.join(REPO, "guppylang", "src"),
        os.path.join(REPO, "guppylang-internals", "src"),
        REPO,  # for `tests.*` corpus modules
    ])
    if hook:
        env["CQCL_GUPPYLANG_VERIF_SCHED"] = "1"
    env["PIP_NO_INDEX"] = "1"
    for k in ("OPENBLAS_NUM_THREADS", "OMP_NUM_THREADS", "MKL_NUM_THREADS",
              "RAYON_NUM_THREADS"):
        env[k] = "1"
    return env


class HarnessError(Exception):
    pass


class Zygote:
    def __init__(self, prop_mod: str, flavour: str, env: dict[str, str]):
        self.prop_mod, self.flavour, self.env = prop_mod, flavour, env
        self.proc: subprocess.Popen | None = None
        self.job = None
        self.t0 = 0.0
        self.buf = b""
        self.ready = False
        self.spawn()

    def spawn(self) -> None:
        jr, jw = os.pipe()
        rr, rw = os.pipe()
        self.proc = subprocess.Popen(
            [PY, os.path.join(VERIF, "sim", "zygote.py"), self.prop_mod, str(jr), str(rw)],
            env=self.env, pass_fds=(jr, rw), stdin=subprocess.DEVNULL,
            stdout=sys.stderr, cwd=VERIF,
        )
        os.close(jr)
        os.close(rw)
        self.job_w, self.res_r = jw, rr
        os.set_blocking(self.res_r, False)
        self.buf = b""
        self.ready = False
        self.job = None

    def send(self, job: dict) -> None:
        payload = json.dumps(job).encode()
        os.write(self.job_w, b"J" + struct.pack(">I", len(payload)) + payload)
        self.job = job
        self.t0 = time.monotonic()

    def frames(self):
        try:
            while True:
                chunk = os.read(self.res_r, 1 << 20)
                if not chunk:
                    if self.proc.poll() is not None or True:
                        yield ("D", b"")
                    break
                self.buf += chunk
        except BlockingIOError:
            pass
        while len(self.buf) >= 5:
            kind = self.buf[:1].decode()
            (n,) = struct.unpack(">I", self.buf[1:5])
            if len(self.buf) < 5 + n:
                break
            payload = self.buf[5:5 + n]
            self.buf = self.buf[5 + n:]
            yield (kind, payload)

    def kill(self) -> None:
        if self.proc is None:
            return
        try:
            os.killpg(self.proc.pid, signal.SIGKILL)
        except (ProcessLookupError, PermissionError):
            try:
                self.proc.kill()
            except ProcessLookupError:
                pass
        try:
            self.proc.wait(timeout=10)
        except subprocess.TimeoutExpired:
            pass
        for fd in (self.job_w, self.res_r):
            try:
                os.close(fd)
            except OSError:
                pass
        self.proc = None


class Pool:
    """`flavours`: {name: env}.  `run(jobs)` yields (job, result_dict) in completion order;
    a result dict with key "harness_error" marks a harness failure."""

    def __init__(self, prop_mod: str, flavours: dict[str, dict[str, str]], workers: int):
        self.prop_mod = prop_mod
        self.flavours = flavours
        self.workers = max(1, workers)
        self.zys: list[Zygote] = []
        self.harness_errors: list[str] = []

    def _ensure(self, demand: dict[str, int]) -> None:
        """Spawn zygotes so that flavours with demand get a fair share of the workers."""
        names = [f for f in self.flavours if demand.get(f)]
        if not names:
            return
        share = max(1, self.workers // len(names))
        for f in names:
            have = sum(1 for z in self.zys if z.flavour == f)
            want = min(share, demand[f])
            for _ in range(max(0, want - have)):
                if len(self.zys) >= max(self.workers, len(names)):
                    break
                self.zys.append(Zygote(self.prop_mod, f, self.flavours[f]))

    def run(self, jobs: list[dict], default_cap: float = 120.0):
        queues: dict[str, list[dict]] = {}
        for j in jobs:
            queues.setdefault(j.get("flavour", "default"), []).append(j)
        for q in queues.values():
            q.reverse()
        self._ensure({f: len(q) for f, q in queues.items()})
        pending = len(jobs)
        sel = selectors.DefaultSelector()
        registered: dict[int, Zygote] = {}

        def reg(z: Zygote) -> None:
            sel.register(z.res_r, selectors.EVENT_READ, z)
            registered[z.res_r] = z

        def unreg(z: Zygote) -> None:
            if z.res_r in registered:
                sel.unregister(z.res_r)
                del registered[z.res_r]

        for z in self.zys:
            reg(z)

        def feed(z: Zygote) -> None:
            q = queues.get(z.flavour)
            if z.ready and z.job is None and q:
                job = q.pop()
                job.setdefault("cap", default_cap)
                z.send(job)

        for z in self.zys:
            feed(z)
        respawns = 0
        while pending > 0:
            events = sel.select(timeout=1.0)
            now = time.monotonic()
            for key, _ in events:
                z: Zygote = key.data
                for kind, payload in z.frames():
                    if kind == "W":
                        z.ready = True
                    elif kind == "R":
                        job, z.job = z.job, None
                        pending -= 1
                        yield job, json.loads(payload)
                    elif kind in ("E", "X", "D"):
                        msg = payload.decode(errors="replace")
                        if kind == "D" and z.job is None and not any(queues.values()):
                            continue
                        if kind == "X" and z.job is None:
                            continue  # status of a child whose result already arrived
                        job, z.job = z.job, None
                        text = {"E": "exception in child:\n" + msg,
                                "X": f"child died, wait status {msg}",
                                "D": "zygote died"}[kind]
                        self.harness_errors.append(text)
                        if kind in ("D", "X"):
                            # after a child died the job pipe may hold unread bytes of
                            # its job: never reuse that zygote
                            unreg(z)
                            z.kill()
                            respawns += 1
                            if respawns > 20:
                                raise HarnessError("zygotes keep dying: " + text)
                            z.spawn()
                            reg(z)
                        if job is not None:
                            pending -= 1
                            yield job, {"harness_error": text}
                    feed(z)
            for z in self.zys:
                if z.job is not None and now - z.t0 > z.job.get("cap", default_cap) + 15:
                    job, z.job = z.job, None
                    text = f"wall cap exceeded ({job.get('cap')} s); zygote killed"
                    self.harness_errors.append(text)
                    unreg(z)
                    z.kill()
                    z.spawn()
                    reg(z)
                    pending -= 1
                    yield job, {"harness_error": text}
                elif z.proc is not None and z.proc.poll() is not None and z.job is None \
                        and not z.ready:
                    raise HarnessError(
                        f"zygote for {self.prop_mod}/{z.flavour} failed to start "
                        f"(exit {z.proc.returncode})")
        for z in self.zys:
            unreg(z)
        sel.close()

    def close(self) -> None:
        for z in self.zys:
            z.kill()
        self.zys = []
