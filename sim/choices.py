"""The choice source: the one place every simulated run gets its decisions from.

In exploration mode it draws from ``random.Random(run_seed)`` and records each value;
in replay mode it reads a recorded list (values are reduced modulo the requested range,
an exhausted list yields 0).  Program generation, operation sequences, the worklist
scheduler, fault positions and per-run tuning knobs all go through ``draw``, so one list
of integers is one exactly repeatable run and one minimiser shrinks all of them.
Logging never draws.
"""
from __future__ import annotations

import hashlib
import random


def mix(*parts: object) -> int:
    """Stable 63-bit mix of the given parts (independent of PYTHONHASHSEED)."""
    h = hashlib.sha256("/".join(str(p) for p in parts).encode()).digest()
    return int.from_bytes(h[:8], "big") >> 1


class Choices:
    def __init__(self, seed: int | None = None, replay: list[int] | None = None):
        self.replaying = replay is not None
        self._replay = list(replay) if replay is not None else []
        self._pos = 0
        self._rng = random.Random(seed) if replay is None else None
        self.record: list[int] = []
        self.labels: list[str] = []
        self.seed = seed

    def draw(self, n: int, label: str = "") -> int:
        """An integer in [0, n)."""
        if n <= 1:
            v = 0
            # still recorded so that positions stay aligned between explore and replay
        elif self.replaying:
            v = self._replay[self._pos] % n if self._pos < len(self._replay) else 0
        else:
            v = self._rng.randrange(n)
        self._pos += 1
        self.record.append(v)
        self.labels.append(label)
        return v

    def chance(self, num: int, den: int, label: str = "") -> bool:
        """True with probability num/den.  0 (the minimiser's target) means False."""
        return self.draw(den, label) >= den - num

    def pick(self, seq, label: str = ""):
        return seq[self.draw(len(seq), label)]

    def rng_int(self, lo: int, hi: int, label: str = "") -> int:
        """An integer in [lo, hi]."""
        return lo + self.draw(hi - lo + 1, label)

    def shuffle(self, seq: list, label: str = "") -> list:
        seq = list(seq)
        out = []
        while seq:
            out.append(seq.pop(self.draw(len(seq), label)))
        return out


class EventLog:
    """Append-only event log with a running digest (used by the determinism self-test)."""

    def __init__(self) -> None:
        self.events: list[str] = []
        self._h = hashlib.sha256()

    def add(self, *parts: object) -> None:
        s = " ".join(str(p) for p in parts)
        self.events.append(s)
        self._h.update(s.encode())
        self._h.update(b"\n")

    def digest(self) -> str:
        return self._h.hexdigest()[:24]
