"""Seeded scheduler for the dataflow-analysis worklists (the hook in cfg/analysis.py).

The hook hands over the worklist container right after it is created; we return a
duck-typed replacement (`pop`, `update`, `add`, `__len__`, `__iter__`, `__contains__`)
whose `pop()` asks the current policy which queued block runs next.  One scheduler step
is one pop.  Policies that need randomness draw from the run's choice source.
"""
from __future__ import annotations

POLICIES = ("lowest", "highest", "fifo", "lifo", "random", "anti", "starve", "rpo")


class Scheduler:
    def __init__(self, policy: str = "lowest", ch=None, starve: int = 0,
                 script: list[int] | None = None):
        self.policy = policy
        self.ch = ch
        self.starve = starve
        self.script = list(script) if script is not None else None
        self.pops: list[list[int]] = []     # one pop sequence per analysis run
        self.unordered_seen = 0             # worklists whose shipped container was a set
        self.ordered_seen = 0
        self.max_pops = None                # bounded liveness: fixed cap per analysis run
        self.bound_fn = None                # ... or a function of the run's block count
        self.requeues = 0
        self.only_unordered = False         # C10: leave deterministic containers alone

    # the hook
    def __call__(self, container):
        unordered = isinstance(container, (set, frozenset))
        if unordered:
            self.unordered_seen += 1
        else:
            self.ordered_seen += 1
            if self.only_unordered:
                return container
        if not all(hasattr(container, a) for a in ("pop", "update", "__len__", "__iter__")):
            return container
        seq: list[int] = []
        self.pops.append(seq)
        q = SchedQueue(list(container), self, seq)
        # the bound belongs to *this* analysis run (nested function bodies are analysed
        # through the same hook with their own, possibly much larger, block lists)
        q.max_pops = self.bound_fn(len(q.items)) if self.bound_fn else self.max_pops
        return q

    def choose(self, q: "SchedQueue") -> object:
        items = q.items  # insertion ordered
        cands = sorted(items, key=lambda b: b.idx)
        if self.script is not None:
            want = self.script.pop(0) if self.script else None
            for b in cands:
                if b.idx == want:
                    return b
            return cands[0]
        p = self.policy
        if p == "lowest":
            return cands[0]
        if p == "highest":
            return cands[-1]
        if p == "fifo":
            return next(iter(items))
        if p == "lifo":
            return next(reversed(items))
        if p == "random":
            return cands[self.ch.draw(len(cands), "pop")]
        if p == "starve":
            rest = [b for b in cands if b.idx != self.starve]
            pool = rest or cands
            return pool[self.ch.draw(len(pool), "pop")]
        if p == "anti":
            # prefer a block one of whose inputs (in either direction, incl. dummy
            # edges) is still queued: it will read a value that is about to change
            def stale(b):
                nb = (list(b.predecessors) + list(b.dummy_predecessors)
                      + list(b.successors) + list(b.dummy_successors))
                return sum(1 for n in nb if n in items and n is not b)
            best = max(stale(b) for b in cands)
            pool = [b for b in cands if stale(b) == best]
            return pool[self.ch.draw(len(pool), "pop")]
        if p == "rpo":
            return cands[0] if q.rounds % 2 == 0 else cands[-1]
        raise ValueError(p)


class SchedQueue:
    def __init__(self, items, sched: Scheduler, seq: list[int]):
        self.items = dict.fromkeys(items)
        self.sched = sched
        self.seq = seq
        self.rounds = 0
        self.max_pops = None

    def __len__(self) -> int:
        return len(self.items)

    def __bool__(self) -> bool:
        return bool(self.items)

    def __iter__(self):
        return iter(list(self.items))

    def __contains__(self, b) -> bool:
        return b in self.items

    def pop(self, *a):
        if self.max_pops is not None and len(self.seq) >= self.max_pops:
            raise NoConvergence(len(self.seq))
        b = self.sched.choose(self)
        del self.items[b]
        self.seq.append(b.idx)
        self.rounds += 1
        return b

    def popitem(self, *a):
        return self.pop(), None

    def popleft(self):
        return self.pop()

    def add(self, b) -> None:
        if b not in self.items:
            self.items[b] = None

    append = add

    def update(self, bs) -> None:
        for b in bs:
            self.add(b)

    extend = update

    def discard(self, b) -> None:
        self.items.pop(b, None)

    remove = discard


class NoConvergence(Exception):
    pass


def install(sched: Scheduler | None) -> None:
    import guppylang_internals.cfg.analysis as A
    A._VERIF_SCHED = sched
