"""Mode S of C09: seeded function bodies fed through the real CFGBuilder."""
from __future__ import annotations

import ast
import sys

from sim.choices import Choices

LOCALS = ("x", "y", "z", "w")


def expr(ch: Choices, vs: list[str], depth: int = 0) -> str:
    k = ch.draw(10, "expr_kind")
    if k < 3 or depth > 1:
        return ch.pick(vs, "expr_var")
    if k < 5:
        return str(ch.draw(5, "lit"))
    if k < 7:
        return f"{expr(ch, vs, depth + 1)} + {expr(ch, vs, depth + 1)}"
    if k == 7:
        return f"({expr(ch, vs, depth + 1)} if {cond(ch, vs, depth + 1)} else {expr(ch, vs, depth + 1)})"
    if k == 8:
        c = ch.draw(3, "k8")
        if c == 0:
            return f"({ch.pick(vs, 'walrus_t')} := {expr(ch, vs, depth + 1)})"
        # the comprehension variable may shadow an outer variable - also one that the
        # comprehension itself reads (in its iterable or in an earlier generator)
        it = ch.pick(("i", "j") + tuple(vs), "comp_var")
        el = f"{it} + {ch.pick(vs, 'comp_use')}"
        flt = f" if {ch.pick(vs, 'comp_cond')} < {it}" if ch.draw(2, "comp_if") else ""
        gens = f"for {it} in range({ch.pick(vs, 'comp_n')})"
        if ch.draw(3, "comp_two_gens") == 0:
            it2 = ch.pick(("j", "k") + tuple(vs), "comp_var2")
            gens += f" for {it2} in range({ch.pick([it] + vs, 'comp_n2')})"
            el += f" + {it2}"
        if c == 1:
            return f"[{el} {gens}{flt}]"
        return f"array({el} for {it} in range({ch.pick(['3'] + vs, 'arr_n')}))"
    if k == 9 and ch.draw(2, "more_exprs"):
        a, b_ = expr(ch, vs, depth + 1), expr(ch, vs, depth + 1)
        v = ch.pick(vs, "xv")
        forms = (f"{v}[{a}]", f"{v}.f", f"-{a}", f"({a} < {b_} < {ch.pick(vs, 'xc')})",
                 f"({a} and {b_})", f"(not {a} or {b_})", f"comptime({v} + 1)", f"py({v})",
                 f"f({a}, k={b_})", f"f(*{v})", f"({a}, {b_})", f"[{a}, {b_}]", f"{{{a}: {b_}}}",
                 f"f'{{{v}}}'", f"{v}[1:{a}]", f"(lambda: {v})", f"({v} @ {a})")
        return forms[ch.draw(len(forms), "xform")]
    return f"f({expr(ch, vs, depth + 1)})"


def cond(ch: Choices, vs: list[str], depth: int = 0) -> str:
    k = ch.draw(10, "cond_kind")
    if k < 4:
        return f"{ch.pick(vs, 'cond_var')} < {ch.draw(4, 'lit')}"
    if k == 4:
        return "True"
    if k == 5:
        return "False"
    if k == 6 and depth < 2:
        return f"{cond(ch, vs, depth + 1)} and {cond(ch, vs, depth + 1)}"
    if k == 7 and depth < 2:
        return f"{cond(ch, vs, depth + 1)} or {cond(ch, vs, depth + 1)}"
    if k == 8 and depth < 2:
        return f"not {cond(ch, vs, depth + 1)}"
    return ch.pick(vs, "cond_var")


def body(ch: Choices, vs: list[str], depth: int, in_loop: bool, budget: list[int],
         nested_ok: bool = True, no_jumps: bool = False) -> list[str]:
    out: list[str] = []
    n = ch.rng_int(1, 4, "body_len")
    for _ in range(n):
        if budget[0] <= 0:
            break
        budget[0] -= 1
        k = ch.draw(26, "stmt")
        if no_jumps and k in (13, 14, 15):
            k = 19
        if k >= 22:
            t, t2 = ch.pick(vs, "t"), ch.pick(vs, "t2")
            e = expr(ch, vs)
            forms = (f"{t}[{expr(ch, vs, 1)}] = {e}", f"{t}.f = {e}", f"{t}: int = {e}", f"{t}: int",
                     f"{t} = {t2} = {e}", f"{t}, *{t2} = {e}", f"({t}, {t2}), {ch.pick(vs, 't3')} = {e}",
                     f"{t}[{t2}] += {e}", f"{t}.f += {e}",
                     # a subscript / attribute target next to a name target that it reads:
                     # sibling targets are stored left to right
                     f"{t}[{t2}], {t2} = {e}, 0", f"{t2}, {t}[{t2}] = 0, {e}",
                     f"[{t}.f, {t}] = {e}, {t2}", f"{t2}, ({t}[{t2}], {t}) = {e}, ({e}, 1)")
            out.append(forms[ch.draw(len(forms), "sform")])
            continue
        if k < 5:
            out.append(f"{ch.pick(vs, 't')} = {expr(ch, vs)}")
        elif k < 7:
            out.append(f"{ch.pick(vs, 't')} += {expr(ch, vs)}")
        elif k < 10 and depth < 3:
            out.append(f"if {cond(ch, vs)}:")
            out += ind(body(ch, vs, depth + 1, in_loop, budget, nested_ok, no_jumps))
            e = ch.draw(3, "else")
            if e == 1:
                out.append("else:")
                out += ind(body(ch, vs, depth + 1, in_loop, budget, nested_ok, no_jumps))
            elif e == 2:
                out.append(f"elif {cond(ch, vs)}:")
                out += ind(body(ch, vs, depth + 1, in_loop, budget, nested_ok, no_jumps))
                out.append("else:")
                out += ind(body(ch, vs, depth + 1, in_loop, budget, nested_ok, no_jumps))
        elif k < 12 and depth < 3:
            out.append(f"while {cond(ch, vs)}:")
            out += ind(body(ch, vs, depth + 1, True, budget, nested_ok, no_jumps))
        elif k == 12 and depth < 3:
            tgt = ch.pick(vs, 'for_t')
            if ch.draw(3, "for_tuple") == 0:
                tgt = f"{tgt}, {ch.pick(vs, 'for_t2')}"
            it = f"range({ch.draw(4, 'n')})" if ch.draw(2, "for_range") else ch.pick(vs, "for_it")
            out.append(f"for {tgt} in {it}:")
            out += ind(body(ch, vs, depth + 1, True, budget, nested_ok, no_jumps))
        elif k == 13 and in_loop:
            out.append("break")
        elif k == 14 and in_loop:
            out.append("continue")
        elif k == 15:
            out.append(f"return {expr(ch, vs)}" if ch.draw(2, "retval") else "return")
        elif k == 16 and nested_ok and depth < 2:
            name = ch.pick(("g", "k"), "fn_name")
            p = ch.pick(("p", "x"), "fn_param")
            out.append(f"def {name}({p}: int) -> int:")
            inner_vs = sorted(set(vs) | {p})
            out += ind(body(ch, inner_vs, depth + 1, False, budget, False)
                       + [f"return {ch.pick(inner_vs, 'ret')}"])
            if name not in vs:
                vs.append(name)
        elif k in (20, 21) and depth < 3:
            m = ch.draw(3, "modifier")
            hdr = ("with dagger:", f"with control({ch.pick(vs, 'ctrl')}):",
                   f"with power({ch.pick(vs, 'pow')}):")[m]
            if ch.draw(4, "two_mods") == 0:
                hdr = f"with control({ch.pick(vs, 'ctrl2')}), dagger:"
            out.append(hdr)
            out += ind(body(ch, vs, depth + 1, False, budget, False, True))
        elif k == 17:
            out.append(f"f({expr(ch, vs)})")
        elif k == 18:
            out.append(f"{ch.pick(vs, 't1')}, {ch.pick(vs, 't2')} = {expr(ch, vs)}, {expr(ch, vs)}")
        else:
            out.append("pass")
    return out or ["pass"]


def ind(lines: list[str]) -> list[str]:
    return ["    " + l for l in lines]


def build(ch: Choices, params: dict):
    from guppylang_internals.cfg.builder import CFGBuilder
    from guppylang_internals.checker.core import Globals
    from guppylang_internals.error import GuppyError

    n_params = ch.draw(3, "n_params")
    ps = [f"p{i}" for i in range(n_params)]
    vs = list(LOCALS[: ch.rng_int(1, 4, "n_locals")]) + ps
    lines = body(ch, vs, 0, False, [params.get("max_stmts", 14)])
    src = f"def fn({', '.join(p + ': int' for p in ps)}) -> None:\n" + "\n".join(ind(lines)) + "\n"
    inout = [p for p in ps if ch.draw(3, "inout") == 0]
    try:
        tree = ast.parse(src)
    except SyntaxError:
        return None
    fdef = tree.body[0]
    from guppylang_internals.ast_util import annotate_location
    annotate_location(fdef, src, "<verif:c09-source>", 0)
    try:
        cfg = CFGBuilder().build(fdef.body, True, Globals(sys._getframe()))
    except (GuppyError, NotImplementedError):
        return None
    return cfg, src, set(ps), inout
