"""C33 - experimental features are gated and the gate state is restored.

System under simulation (real code): guppylang_internals.experimental (flag, the two
context-manager classes, the four gate functions) and every gate site reached through
`GuppyDefinition.check()` / `.compile()`.
History: a seeded, nested program of enable/disable calls, `with enable():` /
`with disable():` blocks (depth <= 4) whose bodies may raise at a drawn position (a
harness exception or the GuppyError of a rejected check, caught at a drawn outer level),
interleaved with checks of probe programs (37 gated constructs x 16 contexts incl. unreachable code + control,
each optionally carrying a second ordinary mistake before / inside / after the construct so
that the check fails part-way through CFG construction, type or linearity checking).
Reference model: an explicit save/restore stack.  Invariants after every op.
"""
from __future__ import annotations

import hashlib
import warnings

from sim import genv
from sim.choices import Choices, EventLog
from sim.framework import std_run_job
from sim.props import c33_programs as P

ID = "C33"
LEVEL = "exploration"
CASE_CAP = 30.0
ASSUMPTIONS = [
    "context managers are used in the `with enable_experimental_features():` idiom (constructed and entered in one step); the reference restores the value seen at construction",
    "a probe program that carries a second, ordinary mistake must be rejected in both gate states; with the gate closed either of its two errors may be reported, with the gate open never the experimental one",
    "a gated program counts as correctly rejected when check() raises GuppyError carrying ExperimentalFeatureError, or UnsupportedError('Capturing closures') for closures (the code's documented behaviour)",
    "probe programs with the gated construct in unreachable code (after a return at the top level, after a return / break inside a nested block) carry no second mistake: whether mistakes in dead code are reported is not part of this property",
    "/repo sources run on newer dependency versions through the 3-point compat shim (verif/compat)",
]
MANIFEST = {
    "level": LEVEL,
    "technique": "deterministic simulation: seeded histories of nested enable/disable context managers with injected exceptional exits, checked against a save/restore stack model",
    "text": "Two parts. Exhaustive table: every gated construct (37, incl. list/tensor constructs nested inside generator expressions, tuples, conditional expressions, generic calls and arguments of overloaded calls) in every context (16: top level, if/else, loops, nested functions incl. under if/for and two levels deep, callee, struct method, struct methods first reached through a probe, unreachable code after a jump at the top level and inside nested blocks), checked and compiled with the gate closed / open / closed again through the context managers. Seeded exploration of histories (nesting <= 4, exceptions injected at drawn positions and caught at drawn levels, probe programs optionally carrying a second ordinary mistake, definitions created early or at first check, leaf ops optionally issued from another caller thread or a fresh contextvars context) over the real flag, context managers and all gate sites; after every op the flag equals the reference stack model and every probe program is accepted iff ungated or the model says the gate is open. Sampling, not proof.",
    "note": "Trusted: the reference stack model (20 lines), the probe-program table (validated by bin/c33_table.py: all 592 gated kind x context pairs are rejected closed / accepted open, and all 7 fault kinds x 3 positions of each (reachable contexts) are rejected in both gate states, 18266 checks, on the repaired tree), the compat shim.",
    "design_ref": "DESIGN.md section 3 (C33)",
}


class SimRaise(Exception):
    pass


def family(kind: str) -> str:
    return kind.split("_")[0].rstrip("2")


def pname(p: dict) -> str:
    return p["kind"] + "/" + p["ctx"] + (f"/fault:{p['fault'][0]}@{p['fault'][1]}" if p["fault"] else "")


def warm() -> None:
    warnings.simplefilter("ignore")
    genv.warm_imports()


def reset_case() -> None:
    """Between the cases of one batch: back to the state a fresh session has, as far as
    the public API allows (gate closed, engine caches dropped)."""
    import guppylang_internals.experimental as X
    from guppylang_internals.engine import ENGINE
    X.EXPERIMENTAL_FEATURES_ENABLED = False
    ENGINE.reset()


def run_job(job: dict) -> dict:
    return std_run_job(job, run_case, reset_case)


def plan(tier: str, seed: int) -> dict:
    # one single-case phase per gated construct: the table part is exhaustive, and the
    # construct is a parameter (not a draw), so a replay addresses it exactly
    table = [{"name": "table", "n_cases": 1, "cases_per_job": 1, "first": True,
              "params": {"mode": "table", "kind": k}} for k in P.ALL_KINDS]
    if tier == "quick":
        return {"budget_s": 100, "min_budget": 60, "phases": [
            {"name": "histories", "n_cases": 3200, "cases_per_job": 25,
             "params": {"max_ops": 14}}] + table}
    return {"budget_s": 1500, "min_budget": 400, "phases": [
        {"name": "histories", "n_cases": 200000, "cases_per_job": 50,
         "params": {"max_ops": 30}}] + table}


# ------------------------------------------------------------------ history generation
def gen_block(ch: Choices, depth: int, budget: list[int], probes: int) -> list:
    ops = []
    n = ch.rng_int(1, 4, "block_len")
    for _ in range(n):
        if budget[0] <= 0:
            break
        budget[0] -= 1
        k = ch.draw(20, "op_kind")
        if k < 8:
            ops.append(["check", ch.draw(probes, "probe"),
                        ch.draw(4, "propagate") == 3, ch.draw(5, "compile") == 4])
        elif k < 13 and depth < 4:
            ops.append(["with", ch.draw(2, "enable") == 1, ch.draw(3, "catch") > 0,
                        gen_block(ch, depth + 1, budget, probes)])
        elif k < 16:
            ops.append(["call", ch.draw(2, "enable") == 1])
        elif k < 18:
            ops.append(["raise"])
        else:
            ops.append(["check", ch.draw(probes, "probe"), False, False])
    return ops


def render_ops(ops: list, ind: int = 0) -> list[str]:
    out = []
    for op in ops:
        pad = " " * ind
        if op[0] == "check":
            out.append(f"{pad}{'compile' if op[3] else 'check'}(p{op[1]})"
                       + (" # error propagates" if op[2] else ""))
        elif op[0] == "with":
            out.append(f"{pad}{'try: ' if op[2] else ''}with "
                       f"{'enable' if op[1] else 'disable'}_experimental_features():")
            out.extend(render_ops(op[3], ind + 4) or [pad + "    pass"])
        elif op[0] == "call":
            out.append(f"{pad}{'enable' if op[1] else 'disable'}_experimental_features()")
        else:
            out.append(f"{pad}raise SimRaise")
    return out


# --------------------------------------------------------------------------- execution
class Run:
    def __init__(self, ch: Choices, params: dict):
        import guppylang_internals.experimental as X
        from guppylang import experimental as PUB
        self.X, self.PUB = X, PUB
        self.ch = ch
        self.log = EventLog()
        self.model = X.EXPERIMENTAL_FEATURES_ENABLED
        self.viol: list[dict] = []
        self.steps = 0
        self.faults = {"sim_raise": 0, "guppy_error_propagated": 0, "exceptional_with_exit": 0,
                       "failing_check_of_gated_program": 0}
        self.probes = {"depth>=3": 0, "exception_crossed>=2_withs": 0,
                       "same_program_both_gate_states": 0, "check_after_exceptional_exit": 0,
                       "gated_rejected": 0, "gated_accepted_open": 0,
                       "failed_midway_with_gate_open": 0,
                       "defined_before_first_check_under_other_gate_state": 0,
                       "op_in_other_thread": 0, "op_in_fresh_context": 0}
        self.depth = 0
        self.crossing = 0
        self.had_exc_exit = False
        n = 0 if params.get("no_programs") else ch.rng_int(2, 5, "n_probes")
        self.progs = []
        for i in range(n):
            # related programs (same gate family as the first one) exercise state that
            # one gate site may keep between checks
            if i > 0 and ch.draw(2, "related"):
                fam = family(self.progs[0]["kind"])
                kind = ch.pick([k for k in P.ALL_KINDS if family(k) == fam], "kind_rel")
            else:
                kind = ch.pick(P.ALL_KINDS, "kind")
            ctx = ch.pick(P.CONTEXTS, "ctx")
            fault = None
            if ch.draw(3, "faulty") == 0:
                fault = (ch.pick(tuple(P.FAULTS), "fault_kind"),
                         ("before", "after", "inside", "inside")[ch.draw(4, "fault_pos")])
                if not P.usable(kind, ctx, fault):
                    fault = None
            # when the definitions are created: at the start of the history (under the
            # initial gate state) or right before their first check
            self.progs.append({"kind": kind, "ctx": ctx, "fault": fault, "mod": None,
                               "seen": set(), "early": ch.draw(3, "define_early") == 0})

    MODNAMES = ("c33_p{i}", "c33_p{i}", "guppylang_playground_p{i}", "guppylang_internals_x_p{i}",
                "hugr_user_p{i}", "tests.user_p{i}", "guppylang.user_p{i}")

    def modname(self, pi: int) -> str:
        """The name of the user's module is an input too (the defining module of a
        definition is looked up by the compiler)."""
        if "modnames" not in self.__dict__:
            self.modnames = {}
        if pi not in self.modnames:
            self.modnames[pi] = self.MODNAMES[self.ch.draw(len(self.MODNAMES), "module_name")].format(i=pi)
        return self.modnames[pi]

    def violation(self, cls: str, sig: dict, expected, observed) -> None:
        self.viol.append({"cls": f"C33/{cls}", "sig": sig, "expected": expected,
                          "observed": observed, "detail": {"step": self.steps}})
        self.log.add("VIOLATION", cls, sig)

    def compare_flag(self, where: str) -> None:
        real = self.X.EXPERIMENTAL_FEATURES_ENABLED
        if real is not self.model:
            self.violation("FLAG_MISMATCH", {"where": where}, self.model, real)
            self.X.EXPERIMENTAL_FEATURES_ENABLED = self.model  # resync, keep exploring

    def do_check(self, op) -> None:
        _, pi, propagate, compile_ = op
        p = self.progs[pi]
        if p["mod"] is None:
            p["mod"] = genv.make_module(self.modname(pi), P.program(p["kind"], p["ctx"], p["fault"]))
        main = p["mod"].main
        thunk = (lambda: main.compile_function()) if compile_ else (lambda: main.check())
        held = {}

        def wrapped():
            from guppylang_internals.error import GuppyError
            try:
                return thunk()
            except GuppyError as e:
                held["exc"] = e
                raise

        o = genv.outcome(wrapped)
        gated = p["kind"] not in P.UNGATED
        sig = {"kind": p["kind"], "ctx": p["ctx"], "op": "compile" if compile_ else "check"}
        if p["fault"]:
            sig["fault"] = list(p["fault"])
        self.log.add("check", pname(p), "gate", self.model, "->", genv.short(o))
        if self.had_exc_exit:
            self.probes["check_after_exceptional_exit"] += 1
        if p.get("defined_under") is not None and p["defined_under"] is not self.model:
            self.probes["defined_before_first_check_under_other_gate_state"] += 1
        p["seen"].add(self.model)
        if len(p["seen"]) == 2:
            self.probes["same_program_both_gate_states"] += 1
            p["seen"].add("counted")
        is_exp = o["kind"] == "guppy_error" and (
            o["error"] == "ExperimentalFeatureError" or (
                p["kind"].startswith("closure") and o["error"] == "UnsupportedError"
                and "Capturing closures" in o["text"]))
        if o["kind"] == "exception":
            self.violation("CRASH", sig, "ok or GuppyError", f"{o['error']}: {o['text']}")
        elif p["fault"]:
            # a program with a second, ordinary mistake is rejected in both gate states;
            # which of its two errors is reported with the gate closed is not pinned down
            # by the property, but with the gate open it is never the experimental one
            self.faults["failing_check_of_gated_program"] += 1
            if o["kind"] == "ok":
                self.violation("FAULTY_ACCEPTED", sig, "GuppyError", "accepted")
            elif self.model and is_exp:
                self.violation("REJECTED_WHILE_ALLOWED", sig, "the ordinary error",
                               o["error"] + ": " + " ".join(o["text"].split())[:200])
            elif self.model:
                self.probes["failed_midway_with_gate_open"] += 1
        elif self.model or not gated:
            if o["kind"] != "ok":
                self.violation("REJECTED_WHILE_ALLOWED", sig, "accepted",
                               o["error"] + ": " + " ".join(o["text"].split())[:200])
            elif gated:
                self.probes["gated_accepted_open"] += 1
        else:
            if o["kind"] == "ok":
                self.violation("GATE_OPEN", sig, "experimental-feature error", "accepted")
            else:
                if not is_exp:
                    self.violation("WRONG_ERROR", sig, "ExperimentalFeatureError",
                                   o["error"] + ": " + " ".join(o["text"].split())[:200])
                else:
                    self.probes["gated_rejected"] += 1
        self.compare_flag("after_check")
        if propagate and "exc" in held:
            self.faults["guppy_error_propagated"] += 1
            raise held["exc"]

    def elsewhere(self, fn) -> None:
        """Runs a leaf op in another caller thread (started and joined at once: which
        thread runs is decided here, nothing is concurrent) or in a fresh
        `contextvars.Context`.  The gate is process-global: where a call or a check comes
        from must not matter."""
        import contextvars
        import threading
        where = self.ch.draw(8, "elsewhere")
        if where >= 2:
            return fn()
        box: dict = {}

        def target():
            try:
                fn()
            except BaseException as e:  # noqa: BLE001
                box["exc"] = e

        if where == 0:
            t = threading.Thread(target=target)
            t.start()
            t.join()
            self.probes["op_in_other_thread"] += 1
        else:
            contextvars.Context().run(target)
            self.probes["op_in_fresh_context"] += 1
        if "exc" in box:
            raise box["exc"]

    def exec_block(self, ops: list) -> None:
        for op in ops:
            self.steps += 1
            if op[0] == "check":
                self.elsewhere(lambda: self.do_check(op))
            elif op[0] == "call":
                self.elsewhere(self.PUB.enable_experimental_features if op[1]
                               else self.PUB.disable_experimental_features)
                self.model = op[1]
                self.log.add("call", op[1])
                self.compare_flag("after_call")
            elif op[0] == "raise":
                self.faults["sim_raise"] += 1
                self.crossing = 0
                self.log.add("raise")
                raise SimRaise
            else:
                self.exec_with(op)

    def exec_with(self, op) -> None:
        _, enable, catch, body = op
        saved = self.model
        cm_cls = (self.PUB.enable_experimental_features if enable
                  else self.PUB.disable_experimental_features)
        self.depth += 1
        if self.depth >= 3:
            self.probes["depth>=3"] += 1
        exc = None
        try:
            with cm_cls():
                self.model = enable
                self.log.add("enter", enable, "depth", self.depth)
                self.compare_flag("after_enter")
                self.exec_block(body)
        except Exception as e:  # noqa: BLE001
            exc = e
        self.depth -= 1
        self.model = saved
        if exc is not None:
            self.faults["exceptional_with_exit"] += 1
            self.had_exc_exit = True
            self.crossing += 1
            if self.crossing == 2:
                self.probes["exception_crossed>=2_withs"] += 1
        self.log.add("exit", enable, "exc" if exc else "normal", "model", self.model)
        self.compare_flag("after_exit_exc" if exc is not None else "after_exit")
        if exc is not None and not catch:
            raise exc
        if exc is not None:
            self.crossing = 0


def run_table_case(ch: Choices, params: dict) -> dict:
    """Exhaustive part: one gated construct in EVERY context, checked and compiled in both gate states, the
    state being set through the context managers."""
    run = Run(ch, {"no_programs": True})
    kind = params["kind"]
    run.progs = [{"kind": kind, "ctx": ctx, "fault": None, "mod": None, "seen": set()}
                 for ctx in P.CONTEXTS]
    n = len(run.progs)
    ops = [["with", False, True, [["check", i, False, False] for i in range(n)]],
           ["with", True, True, [["check", i, False, c] for i in range(n) for c in (False, True)]],
           ["with", False, True, [["check", i, False, False] for i in range(n)]]]
    try:
        run.exec_block(ops)
    except Exception as e:  # noqa: BLE001
        run.violation("CRASH", {"where": "table"}, "no exception", repr(e))
    key = "table/" + kind
    return {"violations": run.viol, "digest": run.log.digest(), "steps": run.steps,
            "faults": run.faults, "probes": run.probes, "keys": [key], "nontrivial_keys": [key],
            "extra": {"table_pairs": n},
            "trace": {"programs": [pname(p) for p in run.progs], "history": render_ops(ops),
                      "events": run.log.events[-20:]}}


def run_case(ch: Choices, params: dict) -> dict:
    if params.get("mode") == "table":
        return run_table_case(ch, params)
    run = Run(ch, params)
    # initial gate state: drawn
    if ch.draw(2, "initial_gate"):
        run.PUB.enable_experimental_features()
        run.model = True
    for pi, p in enumerate(run.progs):
        if p.get("early"):
            p["mod"] = genv.make_module(run.modname(pi), P.program(p["kind"], p["ctx"], p["fault"]))
            run.probes["defined_before_first_check_under_other_gate_state"] += 0
            run.log.add("define-early", pi, "gate", run.model)
            p["defined_under"] = run.model
    ops = gen_block(ch, 0, [params.get("max_ops", 14)], len(run.progs))
    # always end with one check per probe program: bounded "after the faults stop" step
    tail = [["check", i, False, False] for i in range(len(run.progs))]
    try:
        run.exec_block(ops)
    except Exception:  # noqa: BLE001 - uncaught at top level
        run.log.add("uncaught at top level")
    run.compare_flag("end_of_history")
    try:
        run.exec_block(tail)
    except Exception as e:  # noqa: BLE001
        run.violation("CRASH", {"where": "tail"}, "no exception", repr(e))
    shape = "\n".join(render_ops(ops))
    key = hashlib.sha256((shape + "|" + ",".join(
        pname(p) for p in run.progs)).encode()).hexdigest()[:16]
    nontrivial = (run.faults["exceptional_with_exit"] > 0 or "        with" in shape) and \
        (run.probes["gated_rejected"] + run.probes["gated_accepted_open"]) > 0
    res = {
        "violations": run.viol, "digest": run.log.digest(), "steps": run.steps,
        "faults": run.faults, "probes": run.probes,
        "keys": [key], "nontrivial_keys": [key] if nontrivial else [],
        "sets": {"probe_programs_checked": sorted(pname(p) for p in run.progs if p["seen"])},
        "trace": {"programs": [pname(p) for p in run.progs],
                  "history": render_ops(ops), "events": run.log.events},
    }
    if nontrivial and ch.record and ch.record[0] % 7 == 0 or run.viol:
        res["sample"] = {"programs": res["trace"]["programs"], "history": render_ops(ops),
                         "events": run.log.events[:40]}
    return res


def coverage(agg, plan: dict) -> dict:
    return {
        "distinct_nontrivial": len(agg.nontrivial_keys),
        "distinct_histories": len(agg.keys),
        "table_phase": "exhaustive: every gated construct (%d) x every context (%d), check and compile, gate closed / open / closed again through the context managers: %d (construct, context) pairs this run" % (len(P.ALL_KINDS) - 1, len(P.CONTEXTS), agg.extra.get("table_pairs", 0)),
        "rule": "one case = one seeded history (op tree + 2-5 probe programs) run in a fresh fork; distinct = sha256 of (rendered op tree, probe list); non-trivial = contains an exceptional with-exit or with-nesting >= 2 AND at least one check of a gated program",
        "components_real": ["guppylang_internals.experimental (flag, context managers, gate functions)",
                            "guppylang.experimental re-exports", "CompilationEngine.check/compile and all gate sites (cfg builder, expr checker, func checker, tys/builtin)"],
        "components_stub": ["compat shim (3 patch points) between /repo sources and installed hugr/tket-exts"],
        "fault_kinds": "sim_raise = harness exception raised inside a with-body; guppy_error_propagated = GuppyError of a rejected check left to propagate; exceptional_with_exit = with-blocks left by exception; failing_check_of_gated_program = check of a probe program that carries a second ordinary mistake (fails in CFG construction / type checking / linearity checking)",
    }
