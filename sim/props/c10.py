"""C10 - compiler output and diagnostics are deterministic.

For one fixed program every order in which the compiler may iterate an unordered
container is a "schedule":
  (a) the analysis worklists            - guarded hook, seeded scheduler; consulted only
                                          where the shipped container really is unordered
  (b) str-hashed sets                   - PYTHONHASHSEED of a fresh interpreter (zygote)
  (c) identity-hashed sets elsewhere    - real heap layouts: ASLR off + a seeded
                                          allocate/free pattern before the program is
                                          defined, hook OFF so the shipped pop() runs
Oracle: agreement.  The observation of a program (sha256 of Package.to_bytes() on success,
rendered diagnostic on GuppyError, type: message otherwise) must be identical across the
whole configuration vector.  Workload: generated programs with deliberately ambiguous
mistakes (k >= 2 candidates) and the repository's own tests/error corpus.
"""
from __future__ import annotations

import hashlib
import importlib
import json
import os
import re
import sys
import time
import warnings

from sim import corpus as icorpus
from sim import gen, genv, sched
from sim.choices import Choices, EventLog, mix

ID = "C10"
LEVEL = "exploration"
CASE_CAP = 40.0
ASSUMPTIONS = [
    "nondeterminism is reachable only through the worklist hook, the string hash seed, or the heap layout (ASLR off + seeded allocation history); a future use of wall-clock time or os.urandom inside the compiler would be invisible",
    "the scheduler is consulted only where the shipped worklist container is genuinely unordered (a set); a deterministic container is left alone, so a repaired worklist is not accused",
    "observations are compared across configurations run as identical batches in separate processes; a disagreement is confirmed by re-running the program alone under both configurations before it is reported",
    "/repo sources run on newer dependency versions through the 3-point compat shim (verif/compat)",
]
MANIFEST = {
    "level": LEVEL,
    "technique": "deterministic simulation: one program observed under a vector of (hash seed, heap-layout seed, worklist schedule) configurations in pinned fresh interpreters; observations must agree",
    "text": "Seeded search over programs x configurations: generated programs (accepted and rejected, with k>=2 candidate mistakes so that a nondeterministic choice is visible), the tests/error corpus and the test functions of tests/integration (551 items, every public check/compile call they make) are compiled under several PYTHONHASHSEED values, seeded heap layouts (ASLR off, a seeded allocate/free pattern before the batch and a seeded free-list scatter right before every program, so that the relative address order of objects the compiler allocates back to back varies with the layout seed; shipped set.pop()) and seeded worklist schedules (hook); one program in 19 is defined without retrievable source; sha256 of the emitted package / the rendered diagnostic must be identical across the vector. Disagreements are confirmed alone, minimised and written as a two-configuration replay. Sampling, not proof.",
    "note": "Trusted: ASLR-off + PYTHONHASHSEED make a fresh interpreter's layout a function of its allocation history (self-tested), the program generator as workload, the compat shim.",
    "design_ref": "DESIGN.md section 3 (C10)",
}
_CORPUS: list[str] | None = None
# stratified over the program index; kinds whose diagnostic has to choose among several
# candidates by walking CFG or scope structures get a second slot
C10_MISTAKES = gen.MISTAKES + (
    "maybe_undefined", "maybe_undefined_dead_merge", "branch_type_conflict", "qubit_leak",
    "qubit_branch_leak", "nested_maybe_undefined_captures", "nested_branch_type_captures",
    "maybe_undefined_dead_merge")


# ------------------------------------------------------------------------- child side
def warm() -> None:
    warnings.simplefilter("ignore")
    genv.warm_imports()
    import guppylang_internals.experimental as X
    X.EXPERIMENTAL_FEATURES_ENABLED = True
    try:
        icorpus.install()
        import tests.util  # noqa: F401  (corpus modules import it)
        import tests.error.util  # noqa: F401
    except Exception:  # noqa: BLE001
        pass


def corpus_files() -> list[str]:
    global _CORPUS
    if _CORPUS is None:
        root = os.path.join(os.environ.get("VERIF_REPO", "/repo"), "tests", "error")
        out = []
        for d in sorted(os.listdir(root)):
            p = os.path.join(root, d)
            if os.path.isdir(p) and d.endswith("_errors") or d in ("py_errors",):
                for f in sorted(os.listdir(p)):
                    if f.endswith(".py") and f != "__init__.py":
                        out.append(f"tests.error.{d}.{f[:-3]}")
        _CORPUS = out
    return _CORPUS


def perturb_layout(seed: int) -> list:
    """Seeded allocate/free pattern in the size classes BBs and their containers use."""
    if seed == 0:
        return []
    import random
    rng = random.Random(seed)
    keep = []
    junk = []
    for _ in range(rng.randrange(50, 400)):
        k = rng.randrange(5)
        if k == 0:
            junk.append(object())
        elif k == 1:
            junk.append([None] * rng.randrange(1, 12))
        elif k == 2:
            junk.append({i: None for i in range(rng.randrange(1, 9))})
        elif k == 3:
            junk.append(bytearray(rng.randrange(16, 200)))
        else:
            junk.append((None,) * rng.randrange(1, 10))
        if rng.randrange(3) == 0:
            keep.append(junk.pop(rng.randrange(len(junk))))
    del junk
    return keep


class _Inst:
    """Plain instance with a __dict__ (the shape of BB, Place, AST-node objects)."""


def scatter(seed: int) -> list:
    """Right before a program is compiled: for every small-object size class, allocate a
    few hundred blocks and free a random half of them in random order.  pymalloc's free
    lists are LIFO, so the objects the compiler allocates next (BBs, AST nodes, places -
    often two candidates created back to back) land at addresses whose relative order is
    a function of `seed` instead of always ascending."""
    import random
    rng = random.Random(seed)
    keep = []
    for k in range(0, 15):                       # tuples: 40 + 8k bytes -> classes 48..160
        blocks = [(None,) * k for _ in range(160)]
        rng.shuffle(blocks)
        keep.append(blocks[: 80 + rng.randrange(16)])
        del blocks
    insts = [_Inst() for _ in range(400)]
    for i, o in enumerate(insts):
        if i % 3 == 0:
            o.a = i                               # materialise some __dict__s
    rng.shuffle(insts)
    keep.append(insts[: 200 + rng.randrange(32)])
    del insts
    dicts = [{"a": None} for _ in range(200)] + [[None] * rng.randrange(1, 9) for _ in range(200)]
    rng.shuffle(dicts)
    keep.append(dicts[:200])
    del dicts
    return keep


def observe(thunk) -> str:
    o = genv.outcome(thunk, want_bytes=True)
    o.pop("result", None)
    if o["kind"] == "ok":
        return "ok:" + o.get("sha", "none")
    if o["kind"] == "guppy_error":
        return "guppy_error:" + o["error"] + "\n" + o["text"]
    return f"exception:{o['error']}: {o['text']}"


def run_program(ch: Choices, params: dict, name: str, idx: int = 0) -> dict:
    """Generates one program from the choice source and observes it.  The mistake kind is
    stratified over the program index (every window of len(C10_MISTAKES) consecutive
    programs covers all kinds), so that a wall budget that stops exploration early - or a
    loaded machine - still reaches every kind of ambiguity; everything else is drawn."""
    k = ch.draw(10, "has_mistake")
    mistake = None
    if k >= 3:
        ch.pick(C10_MISTAKES, "mistake")       # (draw kept for the stability of old replays)
        mistake = {"kind": C10_MISTAKES[idx % len(C10_MISTAKES)], "k": ch.rng_int(2, 3, "k")}
    g = gen.ProgGen(ch, {"max_stmts": params.get("max_stmts", 12), "allow_capture": True})
    prog = g.module(mistake=mistake)
    obs = []
    # one program in 19 is defined the way `exec`, `python -c` or a plain REPL define it:
    # its source cannot be retrieved (whatever is reported then must be reported identically)
    sourceless = idx % 19 == 7
    try:
        mod = genv.make_module(name, prog["source"], register_source=not sourceless)
    except BaseException as e:  # noqa: BLE001
        return {"obs": [f"defn-error:{type(e).__name__}"], "source": prog["source"],
                "mistake": mistake, "defs": []}
    targets = [prog["entry"]]
    if prog.get("bad_def") and prog["bad_def"] != prog["entry"]:
        targets.append(prog["bad_def"])
    for t in targets:
        d = getattr(mod, t, None)
        if d is None:
            continue
        obs.append(t + " -> " + observe(d.compile_function if t != prog["entry"] else d.compile))
    return {"obs": obs, "source": prog["source"], "mistake": mistake, "defs": targets}


def run_corpus(modname: str) -> dict:
    from guppylang_internals.error import GuppyError
    sys.modules.pop(modname, None)
    try:
        importlib.import_module(modname)
        o = "imported-without-error"
    except GuppyError as e:
        try:
            o = "guppy_error:" + type(e.error).__name__ + "\n" + genv.render(e)
        except Exception as e2:  # noqa: BLE001
            o = f"render-failed:{type(e2).__name__}"
    except BaseException as e:  # noqa: BLE001
        o = f"exception:{type(e).__name__}: {str(e)[:300]}"
    return {"obs": [o], "source": modname, "mistake": None, "defs": []}


def run_itest(item: str) -> dict:
    """One test function of tests/integration with stand-in fixtures; the observation is
    the list of outcomes of the public API calls it makes (sha256 of Package.to_bytes(),
    rendered diagnostic, exception) and how it ended."""
    try:
        r = icorpus.run_item(item)
        obs = r["obs"] + ["end:" + r["end"]]
    except BaseException as e:  # noqa: BLE001
        obs = [f"exception:{type(e).__name__}: {str(e)[:200]}"]
    return {"obs": obs, "source": item, "mistake": None, "defs": []}


def run_job(job: dict) -> dict:
    """job: {"config": {...}, "items": [[index, kind, seed_or_name, choices?]...]}"""
    import guppylang_internals.cfg.analysis as A
    cfg = job["config"]
    keep = perturb_layout(cfg.get("layout", 0))
    out = []
    for idx, kind, val, choices in job["items"]:
        s = None
        if cfg.get("hook"):
            s = sched.Scheduler(cfg.get("policy", "random"),
                                Choices(seed=mix(cfg.get("sched_seed", 0), idx)),
                                starve=cfg.get("starve", 0))
            s.only_unordered = True
            A._VERIF_SCHED = s
        else:
            A._VERIF_SCHED = None     # the shipped container pops on its own
        held = scatter(mix(cfg["layout"], idx)) if cfg.get("layout") else None
        if kind == "gen":
            ch = Choices(replay=choices) if choices is not None else Choices(seed=val)
            # the user's module name is an input too: some look like library modules
            r = run_program(ch, job.get("params", {}),
                            ("c10_p{}", "c10_p{}", "guppylang_user_p{}", "tests.c10_p{}")[idx % 4].format(idx), idx)
            r["choices"] = ch.record if job.get("want_choices") else None
        elif kind == "itest":
            r = run_itest(val)
        else:
            r = run_corpus(val)
        r["index"] = idx
        r["digest"] = hashlib.sha256("\n".join(r["obs"]).encode()).hexdigest()[:20]
        if s is not None:
            r["scheduled_unordered"] = s.unordered_seen
            r["left_alone_ordered"] = s.ordered_seen
            r["pops"] = sum(len(p) for p in s.pops)
        if not job.get("want_source"):
            r.pop("source", None)
        del held
        out.append(r)
    del keep
    return {"cases": out}


# ------------------------------------------------------------------------ driver side
def configs(tier: str, seed: int) -> list[dict]:
    if tier == "quick":
        # four hash seeds under the plain layout, four more heap layouts under the reference
        # hash seed (a different hash seed perturbs the heap as well), one schedule
        # configuration (enough while the shipped worklists are ordered: the scheduler then
        # finds no choice point)
        hs, layouts, scheds = ["0", "1", "4242", "7"], [0], 1
        extra_layouts = [1, 2, 3, 4]
    else:
        hs, layouts, scheds = ["0", "1", "7", "1234", "99", "31337"], [0, 1, 2, 3], 8
        extra_layouts = [4, 5, 6, 7]
    out = []
    for h in hs:
        for l in layouts:
            out.append({"name": f"h{h}-l{l}", "flavour": "h" + h, "hashseed": h, "layout": l,
                        "hook": False})
    for l in extra_layouts:
        out.append({"name": f"h0-l{l}", "flavour": "h0", "hashseed": "0", "layout": l,
                    "hook": False})
    pols = ["highest", "random", "lifo", "anti", "fifo", "rpo", "random", "starve"]
    for i in range(scheds):
        out.append({"name": f"h0-s{i}-{pols[i % len(pols)]}", "flavour": "h0", "hashseed": "0",
                    "layout": 0, "hook": True, "policy": pols[i % len(pols)],
                    "sched_seed": mix(seed, "sched", i), "starve": i % 4})
    return out


def main(tier: str, seed: int) -> int:
    from sim import framework as F
    from sim.pool import Pool, base_env, disable_aslr
    t0 = time.monotonic()
    aslr_off = disable_aslr()
    cfgs = configs(tier, seed)
    flavours = {}
    for c in cfgs:
        env = base_env(hashseed=c["hashseed"])
        flavours[c["flavour"]] = env
    n_gen, n_corpus, n_itest, per = (320, 40, 48, 17) if tier == "quick" else (6000, 10 ** 6, 10 ** 6, 25)
    budget_s = float(os.environ.get("VERIF_BUDGET_S", 120 if tier == "quick" else 1500))
    params = {"max_stmts": 12}
    corpus = corpus_files()
    ch0 = Choices(seed=mix(seed, "C10", "corpus"))
    corpus_pick = corpus if n_corpus >= len(corpus) else \
        sorted(ch0.shuffle(corpus, "corpus_sample")[:n_corpus])
    itests = icorpus.discover_static()
    itest_pick = itests if n_itest >= len(itests) else \
        sorted(Choices(seed=mix(seed, "C10", "itests")).shuffle(itests, "itest_sample")[:n_itest])
    gen_items = [[i, "gen", mix(seed, "C10", i), None] for i in range(n_gen)]
    cor_items = [[n_gen + j, "corpus", m, None] for j, m in enumerate(corpus_pick)]
    it_items = [[n_gen + len(cor_items) + j, "itest", m, None] for j, m in enumerate(itest_pick)]
    items = gen_items + cor_items + it_items   # index -> item
    # every batch mixes generated programs and corpus modules, so that a wall budget
    # that stops exploration early still covers both
    n_b = max(1, (len(items) + per - 1) // per)
    batches = [[] for _ in range(n_b)]
    for k, it in enumerate(gen_items):
        batches[k % n_b].append(it)
    for k, it in enumerate(cor_items):
        batches[k % n_b].append(it)
    for k, it in enumerate(it_items):
        batches[(k * 7) % n_b].append(it)
    batch_of = {it[0]: b for b in batches for it in b}
    pool = Pool(__name__, flavours, F.n_workers())
    harness: list[str] = []
    obs: dict[int, dict[str, dict]] = {}
    programs_done = 0
    probes = {"programs_with_mistake_k>=2": 0, "programs_rejected": 0, "programs_accepted": 0,
              "worklists_scheduled(unordered)": 0, "worklists_left_alone(ordered)": 0,
              "corpus_modules": 0, "integration_test_functions": 0, "integration_api_calls": 0,
              "disagreements_seen": 0, "confirmed_alone": 0}
    reported, known_hits = [], {}
    samples = []
    try:
        done_batches = 0
        for bi, batch in enumerate(batches):
            if time.monotonic() - t0 > budget_s and done_batches > 0:
                break
            jobs = [batch_job(c, batch, params) for c in cfgs]
            for job, res in F.run_jobs_with_retry(pool, jobs, CASE_CAP * len(batch)):
                if "harness_error" in res:
                    harness.append(res["harness_error"])
                    continue
                for r in res["cases"]:
                    obs.setdefault(r["index"], {})[job["config"]["name"]] = r
                    probes["worklists_scheduled(unordered)"] += r.get("scheduled_unordered", 0)
                    probes["worklists_left_alone(ordered)"] += r.get("left_alone_ordered", 0)
            done_batches += 1
            programs_done += len(batch)
        explore_wall = time.monotonic() - t0
        # ---- agreement check
        disagree = []
        for idx in sorted(obs):
            per_cfg = obs[idx]
            ref_name = cfgs[0]["name"]
            if ref_name not in per_cfg:
                continue
            ref = per_cfg[ref_name]
            kindname = items[idx][1]
            if kindname == "corpus":
                probes["corpus_modules"] += 1
            elif kindname == "itest":
                probes["integration_test_functions"] += 1
                probes["integration_api_calls"] += max(0, len(ref["obs"]) - 1)
            else:
                if ref.get("mistake"):
                    probes["programs_with_mistake_k>=2"] += 1
                if any(" -> ok:" in o for o in ref["obs"]):
                    probes["programs_accepted"] += 1
                if any("guppy_error" in o for o in ref["obs"]):
                    probes["programs_rejected"] += 1
            for c in cfgs[1:]:
                r = per_cfg.get(c["name"])
                if r is not None and r["digest"] != ref["digest"]:
                    disagree.append((idx, c))
                    break
        probes["disagreements_seen"] = len(disagree)
        known = F.load_known(ID)
        seen_sigs = set()
        for idx, c in disagree[:40]:
            item = items[idx]
            a, b = cfgs[0], c
            # confirm alone in fresh children (want the program's choices and source)
            ra, rb = observe_pair(pool, a, b, [item], params)
            prefix, batch_replay = [], None
            if ra is None or rb is None or ra["digest"] == rb["digest"]:
                # not reproducible alone: replay the byte-identical batch job
                batch_replay = batch_of[idx]
                ra, rb = observe_pair(pool, a, b, batch_replay, params, index=idx)
                if ra is None or rb is None or ra["digest"] == rb["digest"]:
                    harness.append(f"disagreement on item {idx} under {c['name']} did not "
                                   "reproduce in fresh children (byte-identical batch job)")
                    continue
            else:
                probes["confirmed_alone"] += 1
            cls, sig = classify(ra, rb, b)
            sigkey = json.dumps([cls, sig], sort_keys=True)
            if sigkey in seen_sigs:
                for r in reported:
                    if r["sigkey"] == sigkey:
                        r["also"].append(idx)
                continue
            seen_sigs.add(sigkey)
            choices = ra.get("choices")
            if item[1] == "gen" and choices and batch_replay is None:
                choices, ra, rb = minimise_pair(pool, a, b, item, choices, params,
                                                (150 if tier == "quick" else 500) if len(reported) < 2 else 30, ra, rb)
            viol = {"cls": cls, "sig": sig}
            f = next((f for f in known if F.known_match(f, viol)), None)
            if f is not None:
                known_hits[f["key"]] = f
                continue
            path = os.path.join(F.REPLAY_DIR, f"{ID}-{seed}-{idx}.json")
            os.makedirs(F.REPLAY_DIR, exist_ok=True)
            json.dump({"property": ID, "class": cls, "sig": sig, "verif_seed": seed, "run": idx,
                       "item": [item[0], item[1], item[2], choices],
                       "batch_items": batch_replay, "params": params,
                       "config_A": a, "config_B": b,
                       "env": {"aslr": "off" if aslr_off else "on"},
                       "trace": {"program": ra.get("source")},
                       "expected": {a["name"]: ra["obs"]}, "observed": {b["name"]: rb["obs"]},
                       "repo_tree": F.repo_fingerprint()}, open(path, "w"), indent=1)
            reported.append({"path": path, "cls": cls, "sigkey": sigkey, "index": idx, "also": []})
            if len(samples) < 2:
                samples.append({"program": ra.get("source", "")[:1200], "A": ra["obs"], "B": rb["obs"]})
    except F.HarnessError as e:
        harness.append(str(e))
        explore_wall = time.monotonic() - t0
    finally:
        pool.close()
    for f in known_hits.values():
        print(f"KNOWN-FINDING: property={ID} {f['key']}: {f['description']}")
    for r in reported:
        print(f"VIOLATION property={ID} replay={r['path']}")
        print(f"  class={r['cls']} first_item={r['index']} other_items={r['also'][:10]}")
    # evidence
    digests = {o[cfgs[0]["name"]]["digest"] for o in obs.values() if cfgs[0]["name"] in o}
    nontrivial = {o[cfgs[0]["name"]]["digest"] for i, o in obs.items()
                  if cfgs[0]["name"] in o and (i >= n_gen or o[cfgs[0]["name"]].get("mistake")
                                               or True) and len(o) >= len(cfgs)}
    for idx in sorted(obs)[:400]:
        r = obs[idx].get(cfgs[0]["name"])
        if r and len(samples) < 4 and idx % 97 == 3:
            samples.append({"item": idx, "observations_under_%d_configs" % len(obs[idx]):
                            r["obs"][0][:300], "agree": True})
    wall = time.monotonic() - t0
    evals = sum(len(o) for o in obs.values())
    cov = {
        "evaluations": evals, "distinct_nontrivial": len(nontrivial),
        "programs": len(obs), "configurations_per_program": len(cfgs),
        "configuration_vector": [c["name"] for c in cfgs],
        "rule": "one evaluation = one program (generated, one tests/error corpus module, or one tests/integration test function run with stand-in fixtures: every public check/compile call it makes is observed) under one configuration; distinct = distinct observation digests under the reference configuration; non-trivial = observed under the complete configuration vector",
        "runs_per_hour": int(evals * 3600 / max(explore_wall, 1e-6)),
        "seeds_per_hour": int(len(obs) * 3600 / max(explore_wall, 1e-6)),
        "simulated_time": {"unit": "logical steps (worklist pops decided by the scheduler)"},
        "faults_fired": {"hash_seed_variants": len({c["hashseed"] for c in cfgs}),
                         "layout_perturbations": len({c["layout"] for c in cfgs}),
                         "schedule_policies": sum(1 for c in cfgs if c["hook"])},
        "probes": probes, "samples": samples or [{"note": "none"}],
        "components_real": ["whole checker/compiler pipeline of /repo", "tests/error corpus modules", "tests/integration test functions (stand-in fixtures: validate = no-op, run_*_fn compile the conftest's entry point instead of emulating, EmulatorBuilder.build ends the item)"],
        "components_stub": ["compat shim (3 patch points)",
                            "worklist container replaced by the seeded scheduler in the schedule configurations only"],
        "aslr_off": aslr_off, "harness_errors": len(harness),
        "known_findings_hit": sorted(known_hits), "repo_tree": F.repo_fingerprint(),
        "verif_seed": seed,
    }
    F.write_evidence(ID, tier, seed, LEVEL, cov, ASSUMPTIONS, wall, len(reported))
    if harness:
        print(f"HARNESS-ERROR property={ID}: {len(harness)}; first:\n{harness[0][-1500:]}",
              file=sys.stderr)
        return 1 if reported else 2
    print(f"{ID} {tier}: {len(obs)} programs x {len(cfgs)} configurations = {evals} "
          f"evaluations, violations={len(reported)}, {wall:.1f}s")
    return 1 if reported else 0


def batch_job(c: dict, items: list, params: dict) -> dict:
    """The one and only job shape: exploration, confirmation and replay send byte-identical
    jobs, because with the hook off the heap layout - and with it the pop order of the
    shipped sets - is a function of the child's whole allocation history, job included."""
    return {"config": c, "flavour": c["flavour"], "items": items, "params": params,
            "want_choices": True, "want_source": True, "cap": CASE_CAP * len(items) * 2}


def observe_pair(pool, a: dict, b: dict, items: list, params: dict, index: int | None = None):
    jobs = [batch_job(c, items, params) for c in (a, b)]
    out = {}
    for job, res in pool.run(jobs, default_cap=CASE_CAP * len(items) * 2):
        if "harness_error" in res:
            continue
        cases = res["cases"]
        out[job["config"]["name"]] = cases[-1] if index is None else \
            next(c for c in cases if c["index"] == index)
    return out.get(a["name"]), out.get(b["name"])


def classify(ra: dict, rb: dict, b: dict) -> tuple[str, dict]:
    oa, ob = "\n".join(ra["obs"]), "\n".join(rb["obs"])
    ka = "ok" if " -> ok:" in oa and "error" not in oa else "error"
    kb = "ok" if " -> ok:" in ob and "error" not in ob else "error"
    if ka == "ok" and kb == "ok":
        cls = "C10/HUGR_BYTES_DIFFER"
    elif ka != kb:
        cls = "C10/ACCEPTANCE_DIFFERS"
    else:
        cls = "C10/DIAGNOSTIC_DIFFERS"
    title = re.search(r"Error: ([^(\n]*)", oa)
    axis = "schedule" if b.get("hook") else ("hash_seed" if b["hashseed"] != "0" else "layout")
    return cls, {"axis": axis, "diagnostic": title.group(1).strip() if title else None}


def minimise_pair(pool, a, b, item, choices, params, budget, ra, rb):
    """Shrinks the program's choice list while the two configurations still disagree."""
    used = 0
    best = list(choices)
    while best and best[-1] == 0:
        best.pop()

    def test(cand):
        nonlocal used
        used += 1
        it = [item[0], item[1], item[2], cand]
        x, y = observe_pair(pool, a, b, [it], params)
        if x is None or y is None or x["digest"] == y["digest"]:
            return None
        rec = list(x["choices"])
        while rec and rec[-1] == 0:
            rec.pop()
        return rec, x, y

    progress = True
    while progress and used < budget:
        progress = False
        n = len(best)
        for cand in [best[:n // 2], best[:3 * n // 4]] + \
                [best[:i] + best[i + s:] for s in (16, 8, 4, 2, 1) for i in range(0, n, max(s, n // 12 or 1))]:
            if used >= budget:
                break
            hit = test(cand)
            if hit and (len(hit[0]), hit[0]) < (len(best), best):
                best, ra, rb = hit
                progress = True
                break
        else:
            for i in range(len(best)):
                if used >= budget or best[i] == 0:
                    continue
                c = list(best)
                c[i] = 0
                hit = test(c)
                if hit and (len(hit[0]), hit[0]) < (len(best), best):
                    best, ra, rb = hit
                    progress = True
                    break
    return best, ra, rb


def replay_main(path: str) -> int:
    from sim.pool import Pool, base_env, disable_aslr
    doc = json.load(open(path))
    disable_aslr()
    a, b = doc["config_A"], doc["config_B"]
    flavours = {c["flavour"]: base_env(hashseed=c["hashseed"]) for c in (a, b)}
    pool = Pool(__name__, flavours, 2)
    try:
        if doc.get("batch_items"):
            items = [list(i) for i in doc["batch_items"]]
            ra, rb = observe_pair(pool, a, b, items, doc.get("params", {}), index=doc["run"])
        else:
            ra, rb = observe_pair(pool, a, b, [list(doc["item"])], doc.get("params", {}))
    finally:
        pool.close()
    if ra is None or rb is None:
        print("HARNESS-ERROR during replay", file=sys.stderr)
        return 2
    if ra["digest"] != rb["digest"]:
        print(f"VIOLATION property={ID} replay={path}")
        print(json.dumps({a["name"]: ra["obs"], b["name"]: rb["obs"]}, indent=1)[:3000])
        return 1
    print(f"replay of {path}: both configurations agree ({ra['digest']}); not reproduced")
    return 0


def selftest_main(seed: int, n: int) -> int:
    """Same program batch twice under the same configuration, in different zygotes and at
    different worker counts: digests must be identical (layout replayability)."""
    from sim.pool import Pool, base_env, disable_aslr
    disable_aslr()
    cfgs = configs("quick", seed)
    items = [[i, "gen", mix(seed, "C10", i), None] for i in range(n)]
    batches = [items[s:s + 16] for s in range(0, n, 16)]
    results = []
    for workers in (16, 3):
        pool = Pool(__name__, {c["flavour"]: base_env(hashseed=c["hashseed"]) for c in cfgs},
                    workers)
        d = {}
        try:
            jobs = [batch_job(c, b, {"max_stmts": 12}) for b in batches for c in cfgs]
            for job, res in pool.run(jobs, default_cap=CASE_CAP * 16):
                if "harness_error" in res:
                    print("HARNESS-ERROR", res["harness_error"][-500:], file=sys.stderr)
                    return 2
                for r in res["cases"]:
                    d[(job["config"]["name"], r["index"])] = r["digest"]
        finally:
            pool.close()
        results.append(d)
    diff = [k for k in results[0] if results[1].get(k) != results[0][k]]
    print(f"selftest C10: {len(results[0])} (config, program) observations, "
          f"{len(diff)} differ between worker counts 16 and 3")
    return 1 if diff else 0
