"""C11 - compiling a definition does not depend on session history.

System under simulation (real code): CompilationEngine (check/compile/reset/caches),
DefinitionStore, decorators, the whole checker and compiler, comptime tracing.
Reference model: "a fresh session".  For every (definition, op) a history uses, the
reference outcome is produced by a sibling process forked at the pristine point (pool
defined, nothing checked or compiled), so DefIds coincide; it performs only that op.
History: 10-700 seeded ops (check / compile_function / compile) over a generated pool of 1-3
modules (structs, generics, nat-generics, overloads, comptime functions, nested recursive
and capturing functions, names shadowed across modules) with failing definitions as the
injected fault.  Invariant after every op: outcome == reference outcome.
"""
from __future__ import annotations

import hashlib
import json
import os
import re
import signal
import warnings

from sim import corpus, gen, genv
from sim.choices import Choices, EventLog
from sim.framework import std_run_job

ID = "C11"
LEVEL = "exploration"
CASE_CAP = 150.0
ASSUMPTIONS = [
    "canonical HUGR = text envelope of the package with the numbers of generated names ('<base>.<n>', '%tmp<n>', also inside embedded constant payloads such as static_pyarray.<n>, and 'DefId(id=<n>)' in the names of lowered modifier blocks) renumbered by first occurrence; everything else is compared verbatim",
    "a true fresh-session reference (sibling fork) is computed for the max_refs (6 quick / 10 thorough) (definition, op) pairs whose first use in the history comes latest; for the remaining pairs the first occurrence in the history is the reference, i.e. they are checked for self-consistency across the history",
    "corpus workload: an item is a test function of /repo's tests/integration run with stand-in fixtures (validate = no-op; run_int_fn/run_nat_fn/run_float_fn_approx compile the entry point the conftest builds instead of emulating it; EmulatorBuilder.build ends the item); only the outcomes of the public API calls it makes are compared, never the test's own assertions",
    "'emulate' ops of the property's quantifier are replaced by compile (HUGR emitted by /repo cannot be executed in this sandbox)",
    "the worklist scheduler is pinned (lowest block index first) so that schedule-dependence, which C09/C10 decide, does not leak into this check",
    "/repo sources run on newer dependency versions through the 3-point compat shim (verif/compat)",
]
MANIFEST = {
    "level": LEVEL,
    "technique": "deterministic simulation: seeded check/compile histories with failing definitions injected, each op compared with a fresh-session reference computed in a sibling fork",
    "text": "Seeded exploration of session histories over three workloads. (1) Generated definition pools of 1-3 modules sharing names: 10-320 ops quick, up to 700 thorough, with immediate repeats (also right after a failure) and failing definitions injected from 33 mistake kinds, stratified over the cases, incl. comptime bodies that raise, nested recursive functions whose own body fails, broken helper/overload-variant/struct bodies and wrapper chains that put the failure at dependency depth 1-2; families: generics, nat-generics, overloads, comptime functions and arguments (int/str/bool/float), same-position factory products, Option/Either helpers, generic structs, comptime lists. (2) Staged pools: the same kind of generated module, but its definitions are created inside a running Python function, stage by stage, interleaved with checks and compiles of the definitions that already exist (function-frame namespaces that keep changing); reference per (definition, op, stage) = a fresh session in which the same stages were created and nothing else was checked or compiled. (3) The repository's own tests/integration functions (542 items) run in seeded orders with repeats, 8 histories back to back per session, every public API call they make compared with the same item run alone in a fresh session. After every op the canonical HUGR / rendered diagnostic / escaping exception must equal the reference: a fresh session (sibling process forked before any check or compile) for the 6-10 (definition, op) pairs first used latest in the history, the first occurrence in the history for the others. A final round re-compiles definitions once faults stop. Sampling, not proof.",
    "note": "Trusted: fork() as the fresh-session reference, the canonicaliser (renumbering of generated names only), the program generator as workload, the compat shim.",
    "design_ref": "DESIGN.md section 3 (C11)",
}
OPS = ("check", "compile_function", "compile")
# faults that leave something behind when they fire (namespace, tracing state, partially
# compiled dependencies) are drawn more often than plain type errors
# stratified over (case index, module), see run_case; faults that can leave something behind
# when they fire (namespace, tracing state, markers on definitions, partially compiled
# dependencies) get extra slots
C11_MISTAKES = gen.MISTAKES + ("nested_recursive_body_fails",) * 3 + \
    ("comptime_raises", "comptime_expr_raises", "assign_captured", "struct_bad_field_type",
     "family_body_fails", "struct_methods_override_fields", "nested_recursive_body_fails",
     "lowering_fails", "lowering_fails")


def warm() -> None:
    warnings.simplefilter("ignore")
    genv.warm_imports()
    import guppylang_internals.experimental as X
    X.EXPERIMENTAL_FEATURES_ENABLED = True   # capturing closures are part of the pool
    genv.warm_compile()
    global _ITEMS
    try:
        _ITEMS = corpus.discover()       # imports the test modules once, compiles nothing
    except Exception as e:  # noqa: BLE001
        _ITEMS = {"items": [], "skipped": {f"discovery failed: {type(e).__name__}: {e}": 1}}


_ITEMS: dict = {"items": [], "skipped": {}}


def plan(tier: str, seed: int) -> dict:
    import tempfile
    cache = tempfile.mkdtemp(prefix="verif-c11-refs-")
    if tier == "quick":
        return {"budget_s": 140, "min_budget": 40, "slice": 16, "scratch": cache, "phases": [
            {"name": "generated", "n_cases": 400, "cases_per_job": 1,
             "params": {"min_ops": 10, "max_ops": 320, "max_stmts": 10, "max_refs": 6}},
            {"name": "staged", "n_cases": 300, "cases_per_job": 1,
             "params": {"mode": "staged", "min_ops": 8, "max_ops": 40, "max_stmts": 8, "max_refs": 5}},
            {"name": "corpus", "n_cases": 640, "cases_per_job": 8,
             "params": {"mode": "corpus", "min_ops": 8, "max_ops": 40, "pool": 8,
                        "subset": [seed, 160], "ref_cache": cache}}]}
    return {"budget_s": 1500, "min_budget": 200, "scratch": cache, "phases": [
        {"name": "generated", "n_cases": 20000, "cases_per_job": 1,
         "params": {"min_ops": 10, "max_ops": 700, "max_stmts": 16, "max_refs": 10}},
        {"name": "staged", "n_cases": 15000, "cases_per_job": 1,
         "params": {"mode": "staged", "min_ops": 8, "max_ops": 60, "max_stmts": 12, "max_refs": 6}},
        {"name": "corpus", "n_cases": 40000, "cases_per_job": 8,
         "params": {"mode": "corpus", "min_ops": 10, "max_ops": 80, "pool": 12,
                    "ref_cache": cache}}]}


def cleanup(plan: dict) -> None:
    import shutil
    shutil.rmtree(plan.get("scratch", ""), ignore_errors=True)


# ------------------------------------------------------------------------ canonical form
_NAME = re.compile(r'"((?:[^"\\]|\\.)*?)(\.|%tmp)(\d+)"')
# the same inside JSON that is embedded in a string of the envelope (constant payloads such
# as StaticArrayValue carry generated names like static_pyarray.<n>)
_DEFID = re.compile(r"DefId\(id=\d+\)")
_NAME_ESC = re.compile(r'\\"([A-Za-z_%][^"\\]*?)(\.|%tmp)(\d+)\\"')


def canonical(text: str) -> str:
    """Renumbers the numeric suffix of generated names ("<base>.<n>", "...%tmp<n>") by
    first occurrence; nothing else is touched."""
    seen: dict[str, int] = {}

    def repl(m: re.Match) -> str:
        key = m.group(1) + m.group(2) + m.group(3)
        idx = seen.setdefault(key, len(seen))
        return f'"{m.group(1)}{m.group(2)}#{idx}"'

    def repl_esc(m: re.Match) -> str:
        key = m.group(1) + m.group(2) + m.group(3)
        idx = seen.setdefault(key, len(seen))
        return f'\\"{m.group(1)}{m.group(2)}#{idx}\\"'

    def repl_defid(m: re.Match) -> str:
        return f"DefId(id=#{seen.setdefault(m.group(0), len(seen))})"

    # modifier blocks are lowered to functions named "__WithBlock__(DefId(id=<n>))"
    return _DEFID.sub(repl_defid, _NAME.sub(repl, _NAME_ESC.sub(repl_esc, text)))


def canon_pkg(r) -> str:
    text = canonical(r.to_str())
    # the text envelope anonymises private symbols; keep their names as well
    names = []
    for hugr in r.modules:
        for _n, data in hugr.nodes():
            nm = getattr(data.op, "f_name", None)
            if nm is not None:
                names.append(nm)
    return text + "\n;; function names\n" + canonical("\n".join(f'"{n}"' for n in names))


def in_thread(fn):
    """Runs fn() in another caller thread of the same session (started and joined at once:
    nothing is concurrent) and returns its result."""
    import threading
    box: dict = {}

    def target():
        try:
            box["r"] = fn()
        except BaseException as e:  # noqa: BLE001
            box["e"] = e

    t = threading.Thread(target=target)
    t.start()
    t.join()
    if "e" in box:
        raise box["e"]
    return box["r"]


def do_op(defn, op: str, thread: bool = False) -> dict:
    if thread:
        return in_thread(lambda: do_op(defn, op))
    thunk = {"check": defn.check, "compile_function": getattr(defn, "compile_function", defn.compile),
             "compile": defn.compile}[op]
    o = genv.outcome(thunk)
    r = o.pop("result", None)
    if o["kind"] == "ok" and r is not None:
        try:
            text = canon_pkg(r)
            o["sha"] = hashlib.sha256(text.encode()).hexdigest()[:24]
            o["_text"] = text
        except Exception as e:  # noqa: BLE001
            o = {"kind": "exception", "error": "to_str:" + type(e).__name__, "text": str(e)[:300]}
    return o


def reference_fork(thunk) -> dict:
    """Runs thunk() in a forked sibling and returns its (JSON) result."""
    r, w = os.pipe()
    pid = os.fork()
    if pid == 0:
        try:
            os.close(r)
            signal.alarm(120)
            try:
                res = thunk()
                res.pop("_text", None)
            except BaseException as e:  # noqa: BLE001
                res = {"kind": "harness", "error": type(e).__name__, "text": str(e)[:300]}
            data = json.dumps(res).encode()
            while data:
                n = os.write(w, data)
                data = data[n:]
        finally:
            os._exit(0)
    os.close(w)
    chunks = []
    while True:
        c = os.read(r, 1 << 16)
        if not c:
            break
        chunks.append(c)
    os.close(r)
    os.waitpid(pid, 0)
    if not chunks:
        return {"kind": "harness", "error": "no-output", "text": ""}
    return json.loads(b"".join(chunks))


def same(a: dict, b: dict) -> bool:
    keys = ("kind", "error", "text", "sha")
    return all(a.get(k) == b.get(k) for k in keys)


def classify(ref: dict, got: dict) -> str:
    if ref["kind"] == "ok" and got["kind"] == "ok":
        return "HUGR_DIFFERS"
    if ref["kind"] == "guppy_error" and got["kind"] == "guppy_error":
        return "DIAGNOSTIC_DIFFERS"
    if got["kind"] == "exception" and ref["kind"] != "exception":
        return "CRASH_AFTER_HISTORY"
    return "ACCEPTANCE_DIFFERS"


# -------------------------------------------------------------------------------- a case
def corpus_plan(ch: Choices, params: dict) -> tuple[list[str], list[int], int]:
    """(pool of corpus items, history as indices into it, number of immediate repeats)."""
    items = _ITEMS["items"]
    if not items:
        raise RuntimeError(f"empty corpus: {_ITEMS['skipped']}")
    n_pool = params.get("pool", 10)
    poolsel = [items[ch.draw(len(items), "item")] for _ in range(n_pool)]
    # neighbours: items of the same test module share module-level definitions and the
    # same std-library features
    if ch.draw(2, "neighbours"):
        base = items.index(poolsel[0])
        poolsel[1:4] = items[base + 1:base + 4] or poolsel[1:4]
    poolsel = list(dict.fromkeys(poolsel))
    n_ops = ch.rng_int(params.get("min_ops", 8), params.get("max_ops", 40), "n_ops")
    history, repeats = [], 0
    for _ in range(n_ops):
        pi = ch.draw(len(poolsel), "pick")
        if history and ch.draw(4, "again") == 3:
            pi = history[-1]
            repeats += 1
        history.append(pi)
    return poolsel, history, repeats


_REFS: dict[str, dict] = {}
_FIRST: dict[str, dict] = {}
_REF_STATS = {"reference_forks": 0, "reference_cache_hits": 0}


def ensure_refs(items: list[str], params: dict) -> None:
    """Fresh-session references of corpus items.  Must be called while this child is still
    pristine (nothing checked or compiled since the zygote): each reference is produced by
    a sibling fork that runs only that item.  The reference of an item is the same for
    every history of a run (all children descend from one zygote state), so it is shared
    through the run's scratch directory."""
    cache = params.get("ref_cache")
    for it in dict.fromkeys(items):
        if it in _REFS:
            continue
        path = os.path.join(cache, hashlib.sha256(it.encode()).hexdigest()[:20] + ".json") \
            if cache and os.path.isdir(cache) else None
        if path and os.path.exists(path):
            _REFS[it] = json.load(open(path))
            _REF_STATS["reference_cache_hits"] += 1
            continue
        ref = reference_fork(lambda it=it: corpus.run_item(it, canon_pkg))
        _REF_STATS["reference_forks"] += 1
        if ref.get("kind") == "harness":
            raise RuntimeError(f"reference fork failed: {ref}")
        _REFS[it] = ref
        if path:
            tmp = f"{path}.{os.getpid()}.tmp"
            json.dump(ref, open(tmp, "w"))
            os.replace(tmp, path)


def run_job(job: dict) -> dict:
    params = job.get("params", {})
    if params.get("mode") == "corpus":
        # references first, while this child is pristine; then the histories of the batch
        # run one after the other in this session (a batch is one long history)
        need: list[str] = []
        plans = [Choices(seed=seed) for _, seed in job.get("cases", [])]
        if job.get("mode") == "replay":
            plans.append(Choices(replay=job["choices"]))
        for c in plans:
            poolsel, history, _ = corpus_plan(c, params)
            need += [poolsel[pi] for pi in history]
        sub = params.get("subset")
        if sub:
            # quick tier: fresh-session references only for a seeded subset of the corpus
            # (shared between the histories of the run); the other items are compared
            # with their first occurrence in the session (self-consistency)
            import random
            fresh = set(random.Random(sub[0]).sample(_ITEMS["items"],
                                                     min(sub[1], len(_ITEMS["items"]))))
            need = [it for it in need if it in fresh]
        ensure_refs(need, params)
    return std_run_job(job, run_case, None)


def run_case_corpus(ch: Choices, params: dict) -> dict:
    """History = a seeded sequence of test functions of /repo's tests/integration (each
    defines, checks and compiles its own programs); reference = the same test function run
    alone in a sibling fork of the pristine session."""
    log = EventLog()
    viol: list[dict] = []
    probes = {"corpus_items_run": 0, "corpus_api_calls_compared": 0, "corpus_failing_api_calls": 0,
              "corpus_immediate_repeats": 0, "reference_forks": 0, "reference_cache_hits": 0,
              "items_vs_fresh_reference": 0, "items_vs_first_occurrence": 0}
    poolsel, history, probes["corpus_immediate_repeats"] = corpus_plan(ch, params)
    for k in _REF_STATS:        # forks / cache hits since the last case of this child
        probes[k], _REF_STATS[k] = _REF_STATS[k], 0
    rendered = []
    steps = 0
    for pi in history:
        steps += 1
        it = poolsel[pi]
        got = corpus.run_item(it, canon_pkg)
        if it in _REFS:
            ref = _REFS[it]
            probes["items_vs_fresh_reference"] += 1
        else:
            ref = _FIRST.setdefault(it, got)     # first occurrence in this session
            probes["items_vs_first_occurrence"] += 1
        probes["corpus_items_run"] += 1
        probes["corpus_api_calls_compared"] += len(got["obs"])
        probes["corpus_failing_api_calls"] += sum(1 for o in got["obs"] if " -> ok:" not in o)
        short_id = it.replace("tests.integration.", "")
        rendered.append(short_id)
        log.add(short_id, hashlib.sha256("\n".join(got["obs"] + [got["end"]]).encode()).hexdigest()[:12])
        if got["obs"] != ref["obs"] or got["end"] != ref["end"]:
            k = next((i for i, (a, b) in enumerate(zip(ref["obs"], got["obs"])) if a != b),
                     min(len(ref["obs"]), len(got["obs"])))
            a = ref["obs"][k] if k < len(ref["obs"]) else "<no call> end=" + ref["end"]
            b = got["obs"][k] if k < len(got["obs"]) else "<no call> end=" + got["end"]

            def kind(o: str) -> str:
                o = o.split(" -> ", 1)[-1]
                return "ok" if o.startswith("ok:") else "guppy_error" if o.startswith("guppy_error") \
                    else "exception"
            cls = classify({"kind": kind(a)}, {"kind": kind(b)})
            viol.append({"cls": f"C11/{cls}", "sig": {"corpus_item": short_id, "call": k},
                         "expected": a[:1500], "observed": b[:1500],
                         "detail": {"step": steps, "item": it, "history_before": rendered[:-1][-15:]}})
            if len(viol) >= 3:
                break
    shape = hashlib.sha256(repr((poolsel, history)).encode()).hexdigest()[:16]
    res = {"violations": viol, "digest": log.digest(), "steps": steps, "faults": {},
           "probes": probes, "keys": [shape],
           "nontrivial_keys": [shape] if len(set(history)) >= 3 else [],
           "extra": {"corpus_histories": 1},
           "sets": {"corpus_items_run": sorted({poolsel[pi] for pi in history})},
           "trace": {"corpus_pool": poolsel, "history": rendered}}
    if viol or ch.record[0] % 16 == 0:
        res["sample"] = {"corpus_history": rendered[:20]}
    return res



# ------------------------------------------------------------ staged pools (function scope)
def staged_source(prog: dict, ch: Choices) -> tuple[str, list[list[str]]]:
    """Wraps the top-level statements of a generated module into a generator function that
    creates the definitions stage by stage (`yield`ing the new objects), so that they live
    in a *function* frame whose local names keep changing while earlier definitions are
    already being checked and compiled.  Returns (source, names defined per stage)."""
    import ast as _ast
    lines = prog["source"].splitlines()
    tree = _ast.parse(prog["source"])
    chunks = []
    for node in tree.body:
        start = min([node.lineno] + [d.lineno for d in getattr(node, "decorator_list", [])])
        names = []
        if isinstance(node, _ast.FunctionDef | _ast.ClassDef):
            names = [node.name]
        elif isinstance(node, _ast.Assign):
            names = [t.id for t in node.targets if isinstance(t, _ast.Name)]
        chunks.append((lines[start - 1:node.end_lineno], names))
    stages: list[list[str]] = []
    body: list[str] = []
    i = 0
    while i < len(chunks):
        k = ch.rng_int(1, 3, "chunks_per_stage")
        names: list[str] = []
        for cl, nm in chunks[i:i + k]:
            body += ["    " + l for l in cl] + [""]
            names += nm
        i += k
        guppy_names = [n for n in names if n in prog["defs"]]
        body.append("    yield {" + ", ".join(f"{n!r}: {n}" for n in guppy_names) + "}")
        stages.append(guppy_names)
    return "def _stages():\n" + "\n".join(body) + "\n", stages


def run_case_staged(ch: Choices, params: dict) -> dict:
    """Definitions created inside a running Python function, stage by stage, interleaved
    with checks and compiles of the definitions that already exist.  Reference for
    (definition, op, stage): a fresh session (sibling fork) in which the same stages were
    created and nothing else was checked or compiled."""
    from guppylang.defs import GuppyDefinition
    log = EventLog()
    viol: list[dict] = []
    faults: dict[str, int] = {}
    probes = {"staged_ops": 0, "staged_advances_between_ops": 0, "reference_forks": 0,
              "ops_vs_fresh_reference": 0, "ops_vs_first_occurrence": 0, "failing_ops": 0}
    mistake = None
    if ch.draw(3, "has_fault") == 0:
        kind = C11_MISTAKES[(params.get("_index", 0)) % len(C11_MISTAKES)] \
            if params.get("_index", -1) >= 0 else C11_MISTAKES[0]
        mistake = {"kind": kind, "k": ch.rng_int(1, 2, "k")}
        faults[kind] = 1
    g = gen.ProgGen(ch, {"max_stmts": params.get("max_stmts", 8), "allow_capture": True,
                         "shadow_names": True, "int_helper": True})
    prog = g.module(mistake=mistake, prefix="")
    try:
        src, stages = staged_source(prog, ch)
        mod = genv.make_module("c11_staged", src)
    except BaseException as e:  # noqa: BLE001
        return {"violations": [], "digest": "skip", "steps": 0, "keys": [], "nontrivial_keys": [],
                "extra": {"staged_source_rejected": 1}, "probes": probes,
                "trace": {"error": f"{type(e).__name__}: {e}"}}
    # ---- static history: advance / op on a definition that exists at that point
    n_steps = ch.rng_int(params.get("min_ops", 8), params.get("max_ops", 40), "n_ops")
    history: list[tuple] = []
    stage = 1
    avail = list(stages[0])
    for _ in range(n_steps):
        if stage < len(stages) and (not avail or ch.draw(4, "advance") == 0):
            history.append(("adv",))
            avail += stages[stage]
            stage += 1
            continue
        if not avail:
            break
        name = avail[ch.draw(len(avail), "def")]
        if history and history[-1][0] != "adv" and ch.draw(4, "again") == 3:
            name = history[-1][0]
        op = OPS[ch.draw(2, "op")] if name != prog["entry"] else OPS[ch.draw(3, "op")]
        history.append((name, op, stage))
    while stage < len(stages):
        history.append(("adv",))
        avail += stages[stage]
        stage += 1
    history += [(n, "compile_function", stage) for n in ch.shuffle(list(avail), "final")[:4]]
    # ---- references (pristine point: module defined, generator not started)
    first_pos: dict[tuple, int] = {}
    for pos, h in enumerate(history):
        if h[0] != "adv":
            first_pos.setdefault(h, pos)
    by_exposure = sorted(first_pos, key=lambda k: (-first_pos[k], k))

    def fresh(name: str, op: str, upto: int):
        gobj = mod._stages()
        defs: dict = {}
        try:
            for _ in range(upto):
                defs.update(next(gobj))
        except BaseException as e:  # noqa: BLE001
            return {"kind": "exception", "error": "definition:" + type(e).__name__, "text": str(e)[:200]}
        d = defs.get(name)
        if not isinstance(d, GuppyDefinition):
            return {"kind": "exception", "error": "not-a-definition", "text": name}
        return do_op(d, op)

    refs: dict[tuple, dict] = {}
    for key in by_exposure[: params.get("max_refs", 6)]:
        refs[key] = reference_fork(lambda key=key: fresh(*key))
        probes["reference_forks"] += 1
        if refs[key]["kind"] == "harness":
            raise RuntimeError(f"reference fork failed: {refs[key]}")
    fresh_keys = set(refs)
    # ---- the history
    gobj = mod._stages()
    defs: dict = {}
    steps = 0
    rendered: list[str] = []
    last_adv = False
    try:
        defs.update(next(gobj))
    except BaseException as e:  # noqa: BLE001
        rendered.append(f"stage 1 failed at definition time: {type(e).__name__}")
        history = []
    for h in history:
        if h[0] == "adv":
            try:
                defs.update(next(gobj))
            except BaseException as e:  # noqa: BLE001 - definition-time failure ends the staging
                rendered.append(f"advance failed at definition time: {type(e).__name__}")
                break
            rendered.append("<next stage defined>")
            log.add("adv")
            last_adv = True
            continue
        name, op, st = h
        d = defs.get(name)
        if not isinstance(d, GuppyDefinition):
            continue
        steps += 1
        probes["staged_ops"] += 1
        if last_adv:
            probes["staged_advances_between_ops"] += 1
        last_adv = False
        got = do_op(d, op)
        got.pop("_text", None)
        if h not in refs:
            refs[h] = dict(got)
        ref = refs[h]
        probes["ops_vs_fresh_reference" if h in fresh_keys else "ops_vs_first_occurrence"] += 1
        if got["kind"] != "ok":
            probes["failing_ops"] += 1
        rendered.append(f"{name}.{op}()  # stage {st} -> {genv.short(got)}")
        log.add(name, op, st, genv.short(got))
        if not same(ref, got):
            cls = classify(ref, got)
            viol.append({"cls": f"C11/{cls}",
                         "sig": {"op": op, "staged": True, "ref": ref["kind"] + ":" + (ref.get("error") or ""),
                                 "got": got["kind"] + ":" + (got.get("error") or "")},
                         "expected": {k: ref.get(k) for k in ("kind", "error", "sha", "text")},
                         "observed": {k: got.get(k) for k in ("kind", "error", "sha", "text")},
                         "detail": {"step": steps, "op": f"{name}.{op}()", "stage": st,
                                    "history_before": rendered[:-1][-12:]}})
            if len(viol) >= 3:
                break
    shape = hashlib.sha256((src + repr(history)).encode()).hexdigest()[:16]
    res = {"violations": viol, "digest": log.digest(), "steps": steps, "faults": faults,
           "probes": probes, "keys": [shape],
           "nontrivial_keys": [shape] if steps >= 3 and len(stages) >= 3 else [],
           "extra": {"staged_histories": 1, "stages": len(stages)},
           "sets": {"mistake_kinds_planted": sorted(faults)},
           "trace": {"module": src, "stages": stages, "history": rendered}}
    if viol or ch.record[0] % 16 == 0:
        res["sample"] = {"stages": stages, "history": rendered[:25], "module": src[:1200]}
    return res


def run_case(ch: Choices, params: dict) -> dict:
    if params.get("mode") == "corpus":
        return run_case_corpus(ch, params)
    if params.get("mode") == "staged":
        return run_case_staged(ch, params)
    log = EventLog()
    viol: list[dict] = []
    faults: dict[str, int] = {}
    probes = {"op_after_failure": 0, "same_def_compiled>=3": 0, "struct_checked>=3": 0,
              "name_shared_across_modules": 0, "nested_shadows_module_level": 0,
              "failing_ops": 0, "ok_ops": 0, "final_round_ops": 0, "reference_forks": 0,
              "self_references": 0, "ops_vs_fresh_reference": 0, "ops_vs_first_occurrence": 0,
              "repeat_right_after_failure": 0, "ops_from_another_thread": 0,
              "module_edited_in_place": 0, "user_rebinds_comptime_variable": 0}
    # ---- raw history draws (resolved against the pool once it exists)
    n_ops = ch.rng_int(params.get("min_ops", 6), params.get("max_ops", 24), "n_ops")
    if ch.draw(10, "short_history") < 7:
        # most histories are short (more pools, more planted faults per run); the long
        # ones are what makes session-global counters cross digit boundaries
        n_ops = params.get("min_ops", 6) + n_ops % 70
    raw_hot = [ch.draw(64, "hot") for _ in range(3)]
    raw_history = [(ch.draw(64, "def"), ch.draw(3, "hot_i"), ch.draw(3, "use_hot") > 0,
                    ch.draw(6, "op"), ch.draw(4, "again")) for _ in range(n_ops)]
    # ---- pool
    n_mod = ch.rng_int(1, 3, "n_modules")
    mods, progs, modnames = [], [], []
    pool: list[tuple[int, str]] = []
    for mi in range(n_mod):
        mistake = None
        if ch.draw(4, "has_fault") != 0:
            # the kind is stratified over (case index, module) so that a short or loaded
            # run still covers every kind; position, multiplicity and program are drawn
            ch.pick(C11_MISTAKES, "mistake")
            kind = C11_MISTAKES[(params.get("_index", 0) * 3 + mi) % len(C11_MISTAKES)] \
                if params.get("_index", -1) >= 0 else C11_MISTAKES[0]
            mistake = {"kind": kind, "k": ch.rng_int(1, 3, "k")}
            faults[mistake["kind"]] = faults.get(mistake["kind"], 0) + 1
        g = gen.ProgGen(ch, {"max_stmts": params.get("max_stmts", 10), "allow_capture": True,
                             "shadow_names": True, "int_helper": True})
        prog = g.module(mistake=mistake, prefix="")   # same names in every module
        try:
            mod = genv.make_module(("c11_m{}", "guppylang_c11_m{}", "tests.c11_m{}")[mi % 3].format(mi),
                                   prog["source"])
        except BaseException as e:  # noqa: BLE001 - a definition-time failure is not an op
            log.add("defn-error", mi, type(e).__name__)
            continue
        mods.append(mod)
        progs.append(prog)
        modnames.append(mod.__name__)
        from guppylang.defs import GuppyDefinition
        for name in prog["defs"]:
            if isinstance(getattr(mod, name, None), GuppyDefinition):
                pool.append((len(mods) - 1, name))
    if not pool:
        return {"violations": [], "digest": log.digest(), "steps": 0, "keys": [],
                "nontrivial_keys": [], "extra": {"empty_pool": 1}}
    hot = [r % len(pool) for r in raw_hot]   # a few definitions are repeated often
    if len({n for _, n in pool}) < len(pool):
        probes["name_shared_across_modules"] = 1
    if any("def fn" in l and l.startswith("    ") for p in progs for l in p["source"].splitlines()):
        probes["nested_shadows_module_level"] = 1
    # ---- history: drawn *before* the pool (see below) with pool-independent draws, so
    # that the minimiser can shorten the program part of the choice list without
    # disturbing the ops and vice versa
    history = []
    for (pi_raw, hot_i, use_hot, op_raw, again) in raw_history:
        pi = hot[hot_i] if use_hot else pi_raw % len(pool)
        if again == 3 and history:
            pi = history[-1][0]      # the same definition once more, right away
        if pool[pi][1] == "main" or pi == hot[0]:
            op = OPS[op_raw % 3]
        else:
            op = OPS[op_raw % 2]
        if again == 0 and op_raw == 5 and len(history) > 2:
            # the user edits the module's file in place (same number of lines) and re-runs
            # it: every definition of that module is created anew from the edited source
            history.append((("edit", pool[pi][0]), "edit", 0))
        if again == 1 and op_raw >= 3 and len(history) > 1 and hasattr(mods[pool[pi][0]], "NCT"):
            # the user rebinds a Python variable that a comptime type argument reads; the
            # definition that depends on it is compiled right before and right after
            ts = next((j for j, (m_, n_) in enumerate(pool) if m_ == pool[pi][0] and n_ == "tsize"), None)
            if ts is not None:
                history.append((ts, "compile_function", 0))
            history.append((("rebind", pool[pi][0]), "rebind", 0))
            if ts is not None:
                history.append((ts, "compile_function", 0))
        history.append((pi, op, again))
    # once the faults stop: a final round over (up to 5 drawn) definitions
    order = ch.shuffle(list(range(len(pool))), "final_order")[:5]
    final = [(pi, "compile_function", 0) for pi in sorted(order)]
    # ---- references, each in a sibling forked from this pristine point.  A reference
    # fork costs about as much as 7 ops, so only `max_refs` pairs get a true fresh-session
    # reference: those whose first occurrence in the history is latest (most exposed to
    # what came before).  For the other pairs the first occurrence in the history serves
    # as the reference (self-consistency: every later occurrence must equal it).
    def edited(mi: int, k: int) -> str:
        """Version k of module mi: the same program, every non-blank line with a trailing
        comment (same number of lines, same meaning, different source text)."""
        if k == 0:
            return progs[mi]["source"]
        return "\n".join(l + f"  # edit {k}" if l.strip() else l
                         for l in progs[mi]["source"].splitlines()) + "\n"

    def apply_edit(mi: int, k: int) -> None:
        mods[mi] = genv.make_module(modnames[mi], edited(mi, k), filename=mods[mi].__file__)

    # the edit state (edits applied per module so far) is part of what an op sees
    first_pos: dict[tuple, int] = {}
    state = [0] * len(mods)
    rebinds = [0] * len(mods)
    keyed: list[tuple | None] = []
    for pos, (pi_, op_, _a) in enumerate(history + final):
        if op_ == "edit":
            state[pi_[1]] += 1
            rebinds[pi_[1]] = 0          # the re-run module binds the variable anew
            keyed.append(None)
            continue
        if op_ == "rebind":
            rebinds[pi_[1]] += 1
            keyed.append(None)
            continue
        key = (pi_, op_, tuple(state) + tuple(rebinds))
        keyed.append(key)
        first_pos.setdefault(key, pos)
    by_exposure = sorted(first_pos, key=lambda k: (-first_pos[k], k))
    max_refs = params.get("max_refs", 6)
    refs: dict[tuple, dict] = {}

    def fresh_ref(pi: int, op: str, st: tuple) -> dict:
        n_m = len(mods)
        for mi_, k_ in enumerate(st[:n_m]):  # a session that only ever saw the edited files
            for kk in range(1, k_ + 1):
                apply_edit(mi_, kk)
        for mi_, r_ in enumerate(st[n_m:]):  # ... and the current values of the variables
            if r_:
                mods[mi_].NCT = 2 + r_
        mi, name = pool[pi]
        return do_op(getattr(mods[mi], name), op)

    for key in by_exposure[:max_refs]:
        refs[key] = reference_fork(lambda key=key: fresh_ref(*key))
        probes["reference_forks"] += 1
        if refs[key]["kind"] == "harness":
            raise RuntimeError(f"reference fork failed: {refs[key]}")
    fresh_keys = set(refs)
    # ---- the history
    counts: dict[int, int] = {}
    had_failure = False
    steps = 0
    rendered = []
    state = [0] * len(mods)
    rebinds = [0] * len(mods)
    for phase, ops in (("history", history), ("final", final)):
        prev = None
        for pi, op, again in ops:
            if op == "rebind":
                rebinds[pi[1]] += 1
                mods[pi[1]].NCT = 2 + rebinds[pi[1]]
                probes["user_rebinds_comptime_variable"] += 1
                rendered.append(f"<user sets m{pi[1]}.NCT = {2 + rebinds[pi[1]]}>")
                log.add("rebind", pi[1], rebinds[pi[1]])
                prev = None
                continue
            if op == "edit":
                state[pi[1]] += 1
                rebinds[pi[1]] = 0
                apply_edit(pi[1], state[pi[1]])
                probes["module_edited_in_place"] += 1
                rendered.append(f"<module m{pi[1]} edited in place and re-run (edit {state[pi[1]]})>")
                log.add("edit", pi[1], state[pi[1]])
                prev = None
                continue
            if prev is not None and prev[2] and again == 2:
                # right after a failure: the same op once more, before anything else can
                # repair (or overwrite) what the failure left behind
                pi, op = prev[0], prev[1]
                probes["repeat_right_after_failure"] += 1
            steps += 1
            mi, name = pool[pi]
            other_thread = again == 1 and steps % 3 == 0    # some ops come from another thread
            if other_thread:
                probes["ops_from_another_thread"] += 1
            got = do_op(getattr(mods[mi], name), op, other_thread)
            text = got.pop("_text", None)
            rkey = (pi, op, tuple(state) + tuple(rebinds))
            if rkey not in refs:
                refs[rkey] = dict(got)      # first occurrence = reference
                probes["self_references"] += 1
            ref = refs[rkey]
            probes["ops_vs_fresh_reference" if rkey in fresh_keys
                   else "ops_vs_first_occurrence"] += 1
            rendered.append(f"m{mi}.{name}.{op}() -> {genv.short(got)}")
            log.add(phase, mi, name, op, genv.short(got))
            counts[pi] = counts.get(pi, 0) + 1
            if counts[pi] == 3:
                probes["same_def_compiled>=3"] += 1
            if had_failure:
                probes["op_after_failure"] += 1
            if got["kind"] != "ok":
                had_failure = True
                probes["failing_ops"] += 1
            else:
                probes["ok_ops"] += 1
            if phase == "final":
                probes["final_round_ops"] += 1
            prev = (pi, op, got["kind"] != "ok")
            if not same(ref, got):
                cls = classify(ref, got)
                detail = {"step": steps, "op": f"m{mi}.{name}.{op}()", "phase": phase,
                          "history_before": rendered[:-1][-12:]}
                if cls == "HUGR_DIFFERS" and text is not None:
                    detail["canonical_len"] = len(text)
                viol.append({"cls": f"C11/{cls}",
                             "sig": {"op": op, "ref": ref["kind"] + ":" + (ref.get("error") or ""),
                                     "got": got["kind"] + ":" + (got.get("error") or "")},
                             "expected": {k: ref.get(k) for k in ("kind", "error", "sha", "text")},
                             "observed": {k: got.get(k) for k in ("kind", "error", "sha", "text")},
                             "detail": detail})
                if len(viol) >= 3:
                    break
        if len(viol) >= 3:
            break
    shape = hashlib.sha256(("\n".join(p["source"] for p in progs) + repr(history)).encode()
                           ).hexdigest()[:16]
    nontrivial = probes["ok_ops"] >= 3 and len(pool) >= 3
    res = {"violations": viol, "digest": log.digest(), "steps": steps, "faults": faults,
           "probes": probes, "keys": [shape], "nontrivial_keys": [shape] if nontrivial else [],
           "extra": {"pool_defs": len(pool), "modules": len(mods)},
           "sets": {"mistake_kinds_planted": sorted(faults)},
           "trace": {"modules": [p["source"] for p in progs],
                     "pool": [f"m{mi}.{n}" for mi, n in pool], "history": rendered}}
    if viol or ch.record[0] == 0 and ch.record[-1] % 9 == 0:
        res["sample"] = {"pool": res["trace"]["pool"], "history": rendered[:30],
                         "module0": progs[0]["source"][:1500]}
    return res


def coverage(agg, plan: dict) -> dict:
    return {
        "distinct_nontrivial": len(agg.nontrivial_keys),
        "distinct_histories": len(agg.keys),
        "pool_definitions_total": agg.extra.get("pool_defs", 0),
        "rule": "one case = one generated pool (1-3 modules) + one seeded history (10-320 ops quick) run in a fresh fork; fresh-session references (sibling forks) for the max_refs most exposed (definition, op) pairs, first occurrence as reference for the rest; every op of the history is one comparison (see simulated_time.steps and the probes ops_vs_fresh_reference / ops_vs_first_occurrence); distinct = sha256 of (module sources, history); non-trivial = >= 3 definitions in the pool and >= 3 successful ops compared",
        "ops_compared": agg.steps,
        "histories_generated_pools": agg.extra.get("cases_phase_generated", 0),
        "histories_repository_corpus": agg.extra.get("cases_phase_corpus", 0),
        "histories_staged_pools": agg.extra.get("cases_phase_staged", 0),
        "corpus": "second workload: histories over the test functions of /repo's tests/integration (542 items: each defines, checks and compiles its own programs - std library incl. option/either/collections, generics, structs, comptime, modifiers, tensors, pytket loading ...), 8 histories per child run back to back as one long session; every public API call (check/compile/compile_function/compile_entrypoint) an item makes is compared with the same call of the item run alone in a sibling fork of the pristine session; stand-ins: validate = no-op, run_int_fn & co compile the conftest's entry point instead of emulating, EmulatorBuilder.build ends the item",
        "components_real": ["engine.py CompilationEngine / DefinitionStore", "decorators", "checker", "compiler", "tracing"],
        "components_stub": ["'emulate' replaced by compile", "compat shim (3 patch points)",
                            "worklist order pinned through the guarded hook"],
    }
