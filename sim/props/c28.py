"""C28 - emulator configurations are immutable and reproducible.

System under simulation (real code): /repo's EmulatorInstance, _Options, EmulatorBuilder;
real selene_sim (bundled Quest/Stim/Coinflip simulators, SimpleRuntime, Ideal and
Depolarizing error models) in part of the runs.
Stubs (stated in evidence): the Guppy compile step (two fixture HUGR packages compiled
once with the installed guppylang 1.0.4, see fixtures/make_fixtures.py, because HUGR
emitted by /repo cannot be lowered by the installed selene) and, for volume, an
in-process fake SeleneInstance that reproduces only selene's seed-resolution rule.
History: a tree of configuration handles grown by drawn derivations (incl. aliasing of
simulator objects between handles and the harness) interleaved with run() calls, some of
which fail.  Reference model: a pure copy-on-derive record per handle.
"""
from __future__ import annotations

import copy
import datetime
import hashlib
import os
import shutil
import sys
import tempfile

from sim.choices import Choices, EventLog
from sim.framework import std_run_job
from sim.pool import VERIF, base_env

ID = "C28"
LEVEL = "exploration"
CASE_CAP = 60.0
FIX = os.path.join(VERIF, "fixtures")
ASSUMPTIONS = [
    "a configuration 'has a fixed seed' when its seed option is not None; only such configurations have their results compared",
    "expected results = SeleneInstance.run_shots called directly with freshly constructed component objects carrying the record's values (component seed if set, else the run seed - selene's own resolution rule)",
    "the user does not mutate simulator objects behind the API's back; sharing one object between handles is allowed and is the aliasing fault",
    "the compiled program is a fixture (compile step stubbed); real selene runs use n_processes in {1,2}",
    "/repo sources run on newer dependency versions through the 3-point compat shim (verif/compat)",
]
MANIFEST = {
    "level": LEVEL,
    "technique": "deterministic simulation: seeded histories of configuration derivations and runs over shared simulator objects (real selene and a fake back end), checked against a copy-on-derive record model",
    "text": "Seeded exploration of histories (5-30 ops) over a growing tree of EmulatorInstance/EmulatorBuilder handles: every with_*/..._sim derivation, aliasing of simulator objects across handles, runs (some failing with EmulatorError, some hit by an injected transient loss of the emulator process in shot k) in between. After every op all public getters of all live handles must equal a pure per-handle record, the arguments every fake-back-end run hands to selene must equal the record, and every run of a seeded handle must equal (type-sensitively) a direct run with fresh components built from the record and the handle's own earlier runs. Sampling, not proof.",
    "note": "Trusted: the record model, selene's documented seed-resolution rule (also exercised for real in the real-selene runs), the fixture programs, the fake back end (counts reported separately), the compat shim.",
    "design_ref": "DESIGN.md section 3 (C28)",
}
_STATE: dict = {}


# ------------------------------------------------------------------------------ set-up
def warm() -> None:
    import verif_compat  # noqa: F401
    import guppylang.emulator.builder  # noqa: F401
    import guppylang.emulator.instance  # noqa: F401
    import selene_sim  # noqa: F401
    from selene_depolarizing_error_model_plugin import DepolarizingPlugin  # noqa: F401


def real_instances() -> dict:
    """Builds (once per child) the two fixture programs with real selene through /repo's
    EmulatorBuilder."""
    if "real" not in _STATE:
        from guppylang.emulator.builder import EmulatorBuilder
        from hugr.package import Package
        out = {}
        for name in ("prog", "prog_panic"):
            pkg = Package.from_bytes(open(os.path.join(FIX, name + ".hugr"), "rb").read())
            out[name] = EmulatorBuilder().build(pkg, n_qubits=4)._instance
        _STATE["real"] = out
    return _STATE["real"]


def run_job(job: dict) -> dict:
    try:
        return std_run_job(job, run_case, None)
    finally:
        for inst in _STATE.get("real", {}).values():
            try:
                inst.delete_files()
            except Exception:  # noqa: BLE001
                pass


def plan(tier: str, seed: int) -> dict:
    tmp = tempfile.mkdtemp(prefix="verif-c28-")
    env = base_env()
    env["TMPDIR"] = tmp
    p = {"flavours": {"default": env}, "_tmp": tmp}
    if tier == "quick":
        p.update({"n_cases": 2400, "cases_per_job": 30, "budget_s": 110, "min_budget": 60,
                  "params": {"max_ops": 24, "real_every": 5}})
    else:
        p.update({"n_cases": 120000, "cases_per_job": 60, "budget_s": 1500,
                  "min_budget": 300, "params": {"max_ops": 40, "real_every": 3}})
    return p


def cleanup(plan: dict) -> None:
    shutil.rmtree(plan.get("_tmp", ""), ignore_errors=True)


# ---------------------------------------------------------------------- fake back end
_NONCE = [0]


def _resolve(own, run_seed):
    if own is not None:
        return own
    if run_seed is not None:
        return run_seed
    _NONCE[0] += 1
    return f"unseeded-{_NONCE[0]}"


def fake_results(panics: bool, sim, em, rt, run_seed, n_qubits, n_shots, offset, incr):
    """What the fake back end produces; also used (on record values) as the reference."""
    out = []
    for i in range(n_shots):
        shot = offset + i * incr
        key = repr((sim[0], sim[2], _resolve(sim[1], run_seed), em[0], em[2],
                    _resolve(em[1], run_seed), rt[0], _resolve(rt[1], run_seed),
                    n_qubits, shot))
        h = hashlib.sha256(key.encode()).digest()
        if panics:
            bits = [("a", h[0] & 1)]
            if h[1] % 5 == 0:
                out.append((bits, "panic"))
                return out
            bits.append(("c", h[2] & 1))
        else:
            # numerically equal values of different types under one tag (int / float / bool)
            bits = [("b", (int, float, bool)[j % 3](h[j] & 1)) for j in range(6)]
        out.append((bits, None))
    return out


def spec_of(obj) -> tuple:
    """(kind, own seed, other parameters) of a selene component object."""
    import dataclasses
    other = tuple((f.name, getattr(obj, f.name)) for f in dataclasses.fields(obj)
                  if f.name != "random_seed")
    return (type(obj).__name__, obj.random_seed, other)


class FakeSelene:
    def __init__(self, panics: bool):
        self.panics = panics
        self.calls = 0
        self.fail_at: int | None = None    # transient fault: the next run dies in shot k

    def run_shots(self, simulator, n_qubits, n_shots=1, error_model=None, runtime=None,
                  event_hook=None, verbose=False, timeout=None, results_logfile=None,
                  random_seed=None, shot_offset=0, shot_increment=1, n_processes=1, **kw):
        self.calls += 1
        # what the configuration hands to the back end (its behaviour at the boundary)
        self.last_args = {"n_qubits": n_qubits, "shots": n_shots, "seed": random_seed,
                          "shot_offset": shot_offset, "shot_increment": shot_increment,
                          "n_processes": n_processes, "timeout": timeout, "verbose": verbose,
                          "sim": spec_of(simulator), "runtime": spec_of(runtime),
                          "error_model": spec_of(error_model)}
        res = fake_results(self.panics, spec_of(simulator), spec_of(error_model),
                           spec_of(runtime), random_seed, n_qubits, n_shots, shot_offset,
                           shot_increment)

        fail_at, self.fail_at = self.fail_at, None

        def shot_iter(i, bits, err):
            if fail_at == -1 and i == 0:
                # selene could not start its worker processes: raised while the first shot
                # is being read, before any entry
                from selene_sim.exceptions import SeleneStartupError
                raise SeleneStartupError("transient: could not start the emulator processes", "", "")
            if i == fail_at:
                yield from bits[:1]
                raise RuntimeError("transient: emulator process lost")
            yield from bits
            if err:
                raise RuntimeError("fake panic")
        return (shot_iter(i, b, e) for i, (b, e) in enumerate(res))


# ------------------------------------------------------------------------ record model
def make_component(spec: tuple):
    from selene_depolarizing_error_model_plugin import DepolarizingPlugin
    from selene_sim import Coinflip, IdealErrorModel, Quest, SimpleRuntime, Stim
    from selene_soft_rz_runtime_plugin import SoftRZRuntimePlugin
    classes = {c.__name__: c for c in (Quest, Stim, Coinflip, SimpleRuntime, IdealErrorModel,
                                       DepolarizingPlugin, SoftRZRuntimePlugin)}
    return classes[spec[0]](random_seed=spec[1], **dict(spec[2]))


def default_record(n_qubits: int) -> dict:
    from selene_sim import IdealErrorModel, Quest, SimpleRuntime
    return {"n_qubits": n_qubits, "shots": 1, "shot_offset": 0, "shot_increment": 1,
            "n_processes": 1, "seed": None, "verbose": False, "timeout": None,
            "sim": spec_of(Quest()), "runtime": spec_of(SimpleRuntime()),
            "error_model": spec_of(IdealErrorModel())}


def observe(h) -> dict:
    """Public getters of a handle, in record shape."""
    return {"n_qubits": h.n_qubits, "shots": h.shots, "shot_offset": h.shot_offset,
            "shot_increment": h.shot_increment, "n_processes": h.n_processes,
            "seed": h.seed, "verbose": h.verbose, "timeout": h.timeout,
            "sim": spec_of(h.simulator), "runtime": spec_of(h.runtime),
            "error_model": spec_of(h.error_model)}


def typed(x):
    """Type-sensitive form of a result structure (1, 1.0 and True compare equal)."""
    if isinstance(x, list | tuple):
        return [typed(e) for e in x]
    if isinstance(x, dict):
        return {k: typed(v) for k, v in x.items()}
    if isinstance(x, bool | int | float):
        return f"{type(x).__name__}:{x!r}"
    return x


def run_handle(h):
    """run() of a handle -> comparable value."""
    from guppylang.emulator.exceptions import EmulatorError
    try:
        r = h.run()
        return {"shots": [[list(e) for e in s.entries] for s in r.results], "error": None}
    except EmulatorError as ex:
        return {"shots": [[list(e) for e in s.entries] for s in ex.completed_shots.results],
                "failing": [list(e) for e in ex.failing_shot.entries],
                "error": type(ex.underlying_exception).__name__}


def reference_run(inst, rec: dict, real: bool, panics: bool):
    """Direct run with fresh components built from the record."""
    if not real:
        res = fake_results(panics, rec["sim"], rec["error_model"], rec["runtime"],
                           rec["seed"], rec["n_qubits"], rec["shots"], rec["shot_offset"],
                           rec["shot_increment"])
        done = [[list(e) for e in b] for b, e in res if e is None]
        bad = [b for b, e in res if e is not None]
        if bad:
            return {"shots": done, "failing": [list(e) for e in bad[0]],
                    "error": "RuntimeError"}
        return {"shots": done, "error": None}
    stream = inst.run_shots(
        simulator=make_component(rec["sim"]), runtime=make_component(rec["runtime"]),
        error_model=make_component(rec["error_model"]), n_qubits=rec["n_qubits"],
        n_shots=rec["shots"], verbose=False, timeout=rec["timeout"],
        random_seed=rec["seed"], shot_offset=rec["shot_offset"],
        shot_increment=rec["shot_increment"], n_processes=rec["n_processes"])
    done = []
    for shot in stream:
        cur = []
        try:
            for tag, value in shot:
                cur.append([tag, value])
        except Exception as e:  # noqa: BLE001
            return {"shots": done, "failing": cur, "error": type(e).__name__}
        done.append(cur)
    return {"shots": done, "error": None}


# ------------------------------------------------------------------------------ a case
SIMS = ("Quest", "Stim", "Coinflip")


def run_case(ch: Choices, params: dict) -> dict:
    from guppylang.emulator.builder import EmulatorBuilder
    from guppylang.emulator.instance import EmulatorInstance
    from selene_depolarizing_error_model_plugin import DepolarizingPlugin
    from selene_sim import Coinflip, IdealErrorModel, NoEventHook, Quest, SimpleRuntime, Stim
    from selene_soft_rz_runtime_plugin import SoftRZRuntimePlugin
    import guppylang.emulator.builder as builder_mod

    simcls = {"Quest": Quest, "Stim": Stim, "Coinflip": Coinflip}
    log = EventLog()
    viol: list[dict] = []
    real = ch.draw(params.get("real_every", 3), "backend") == 0
    panics = ch.draw(4, "program") == 0
    faults = {"aliased_simulator": 0, "failing_run": 0, "preseeded_user_object": 0,
              "transient_run_failure": 0}
    probes = {"backend_args_compared": 0,
              "sibling_with_seed_on_shared_sim": 0, "run_between_derivations": 0,
              "n_processes=2_run": 0, "rerun_of_seeded_handle": 0, "builder_ops": 0,
              "seeded_runs_compared": 0}
    if real:
        inst = real_instances()["prog_panic" if panics else "prog"]
    else:
        inst = FakeSelene(panics)
    # a fresh base handle per history (fresh default components), as EmulatorBuilder.build
    # creates it
    base = EmulatorInstance(_instance=inst, _n_qubits=4)
    handles = [base]
    records = [default_record(4)]
    runs_seen: list[list] = [[]]
    names = ["base"]
    # harness-held user simulator objects (some pre-seeded)
    users = []
    for i in range(ch.rng_int(1, 3, "n_user_objs")):
        kind = ch.pick(SIMS, "user_kind")
        seed = [None, 11, 1, 0][ch.draw(4, "user_seed")]   # may coincide with an instance seed
        users.append((simcls[kind](random_seed=seed), spec_of(simcls[kind](random_seed=seed))))
        if seed is not None:
            faults["preseeded_user_object"] += 1
    # builder handles
    builders = [EmulatorBuilder()]
    brecs = [{"name": None, "build_dir": None, "verbose": False, "custom_args": None}]
    spy: list[dict] = []
    orig_build = builder_mod.selene_sim.build

    def spy_build(package, **kw):
        spy.append(kw)
        return inst

    steps = 0
    last_was_derive = False
    history: list[str] = []

    def violation(cls, sig, expected, observed, detail=None):
        viol.append({"cls": f"C28/{cls}", "sig": sig, "expected": expected,
                     "observed": observed, "detail": detail or {"step": steps}})
        log.add("VIOLATION", cls, sig)

    def check_all(op_name: str, new_idx: int | None):
        for i, (h, rec) in enumerate(zip(handles, records)):
            obs = observe(h)
            if obs != rec:
                field = next(k for k in rec if obs[k] != rec[k])
                earlier = i != new_idx
                violation("EARLIER_CONFIG_CHANGED" if earlier else "GETTER_CHANGED",
                          {"culprit_op": op_name, "field": field},
                          {f"{names[i]}.{field}": rec[field]},
                          {f"{names[i]}.{field}": obs[field]})
                records[i] = obs  # resync so that one defect is reported once per handle
        for i, (b, rec) in enumerate(zip(builders, brecs)):
            obs = {"name": b.name, "build_dir": b.build_dir, "verbose": b.verbose,
                   "custom_args": b.custom_args}
            if obs != rec:
                field = next(k for k in rec if obs[k] != rec[k])
                violation("BUILDER_CONFIG_CHANGED", {"culprit_op": op_name, "field": field},
                          {f"builder{i}.{field}": rec[field]}, {f"builder{i}.{field}": obs[field]})
                brecs[i] = obs

    n_ops = ch.rng_int(5, params.get("max_ops", 24), "n_ops")
    try:
        builder_mod.selene_sim.build = spy_build
        if ch.draw(2, "start_multi_shot"):
            # half of the histories start from a multi-shot, seeded configuration: shot
            # offset / increment / process options only matter when there are several shots
            v, sd = ch.rng_int(2, 4, "start_shots"), [1, 2, 0][ch.draw(3, "start_seed")]
            h1 = base.with_shots(v).with_seed(sd)
            rec1 = copy.deepcopy(records[0])
            rec1["shots"], rec1["seed"] = v, sd
            rec1["sim"] = (rec1["sim"][0], sd, rec1["sim"][2])   # with_seed seeds the simulator
            handles.append(h1)
            records.append(rec1)
            runs_seen.append([])
            names.append("h1")
            history.append(f"h1 = base.with_shots({v}).with_seed({sd})")
            log.add("derive", "h1", "base", f"with_shots({v}).with_seed({sd})")
            check_all("with_seed", len(handles) - 1)
        for _ in range(n_ops):
            steps += 1
            k = ch.draw(20, "op")
            if k < 11:                                   # ---- derive a new handle
                src = ch.draw(len(handles), "src_handle")
                h, rec = handles[src], copy.deepcopy(records[src])
                m = ch.draw(17, "method")
                new = None
                if m == 0 or m == 1 or m == 2:
                    v = [None, 1, 2, 3, 0][ch.draw(5, "seed")]   # 0: a falsy seed
                    new, op = h.with_seed(v), f"with_seed({v})"
                    rec["seed"] = v
                    rec["sim"] = (rec["sim"][0], v, rec["sim"][2])
                    if sum(1 for x in handles if x.simulator is h.simulator) >= 2 or \
                            any(u[0] is h.simulator for u in users):
                        probes["sibling_with_seed_on_shared_sim"] += 1
                elif m == 3:
                    v = ch.rng_int(1, 4, "shots")
                    new, op = h.with_shots(v), f"with_shots({v})"
                    rec["shots"] = v
                elif m == 4:
                    v = ch.draw(4, "offset")
                    new, op = h.with_shot_offset(v), f"with_shot_offset({v})"
                    rec["shot_offset"] = v
                elif m == 5:
                    v = ch.rng_int(1, 3, "incr")
                    if not real and ch.draw(3, "incr_zero") == 0:
                        v = 0     # replay the same shot number (real selene divides by it)
                    new, op = h.with_shot_increment(v), f"with_shot_increment({v})"
                    rec["shot_increment"] = v
                elif m == 6:
                    v = ch.rng_int(1, 2, "nproc")
                    new, op = h.with_n_processes(v), f"with_n_processes({v})"
                    rec["n_processes"] = v
                elif m == 7:
                    v = ch.rng_int(3, 6, "nq")
                    new, op = h.with_n_qubits(v), f"with_n_qubits({v})"
                    rec["n_qubits"] = v
                elif m == 8:
                    v = [None, datetime.timedelta(seconds=60)][ch.draw(2, "timeout")]
                    new, op = h.with_timeout(v), f"with_timeout({v})"
                    rec["timeout"] = v
                elif m in (9, 10, 11):
                    w = ch.draw(3, "sim_source")
                    if w == 0:      # fresh object
                        kind = ch.pick(SIMS, "kind")
                        s = [None, 21, 2, 0][ch.draw(4, "own_seed")]
                        obj, spec = simcls[kind](random_seed=s), None
                        op = f"with_simulator({kind}(random_seed={s}))"
                        if not real and ch.draw(4, "nested_plugin") == 0:
                            # a plugin that wraps another plugin and takes its seed from it
                            # when constructed (its __post_init__ is not a pure validation)
                            from selene_sim import QuantumReplay
                            obj = QuantumReplay(simulator=obj, measurements=[[True, False]])
                            op = f"with_simulator(QuantumReplay({kind}(random_seed={s})))"
                            probes["nested_plugin"] = probes.get("nested_plugin", 0) + 1
                        spec = spec_of(obj)
                    elif w == 1:    # harness-held user object, possibly attached elsewhere
                        ui = ch.draw(len(users), "user_obj")
                        obj, spec = users[ui]
                        op = f"with_simulator(user{ui}:{spec[0]}(random_seed={spec[1]}))"
                        faults["aliased_simulator"] += 1
                    else:           # the simulator object of another handle
                        oi = ch.draw(len(handles), "other_handle")
                        obj, spec = handles[oi].simulator, records[oi]["sim"]
                        op = f"with_simulator({names[oi]}.simulator)"
                        faults["aliased_simulator"] += 1
                    new = h.with_simulator(obj)
                    rec["sim"] = spec
                elif m == 12:
                    which = ch.draw(3, "sim_method")
                    new = (h.statevector_sim, h.stabilizer_sim, h.coinflip_sim)[which]()
                    op = ("statevector_sim()", "stabilizer_sim()", "coinflip_sim()")[which]
                    rec["sim"] = spec_of((Quest, Stim, Coinflip)[which]())
                elif m == 13:
                    s = [None, 31, 1][ch.draw(3, "rt_seed")]
                    obj = (SimpleRuntime if ch.draw(2, "rt_kind") else SoftRZRuntimePlugin)(random_seed=s)
                    new, op = h.with_runtime(obj), f"with_runtime({type(obj).__name__}(random_seed={s}))"
                    rec["runtime"] = spec_of(obj)
                elif m == 14:
                    s = [None, 41, 2, 0][ch.draw(4, "em_seed")]
                    if ch.draw(2, "em_kind"):
                        obj = DepolarizingPlugin(random_seed=s, p_1q=0.3, p_2q=0.3, p_meas=0.3, p_init=0.3)
                    else:
                        obj = IdealErrorModel(random_seed=s)
                    new, op = h.with_error_model(obj), f"with_error_model({type(obj).__name__}(random_seed={s}))"
                    rec["error_model"] = spec_of(obj)
                elif m == 15:
                    new, op = h.with_event_hook(NoEventHook()), "with_event_hook(NoEventHook())"
                else:
                    v = bool(ch.draw(2, "bar"))
                    if v and not real:
                        # verbose only with the fake back end (real selene would print)
                        new, op = h.with_verbose(True), "with_verbose(True)"
                        rec["verbose"] = True
                    else:
                        new, op = h.with_progress_bar(False), "with_progress_bar(False)"
                handles.append(new)
                records.append(rec)
                runs_seen.append([])
                names.append(f"h{len(handles) - 1}")
                history.append(f"{names[-1]} = {names[src]}.{op}")
                log.add("derive", names[-1], names[src], op)
                check_all(op.split("(")[0], len(handles) - 1)
                last_was_derive = True
            elif k < 17:                                  # ---- run a handle
                seeded = [j for j, r in enumerate(records) if r["seed"] is not None]
                if seeded and ch.draw(3, "prefer_seeded") > 0:
                    i = seeded[ch.draw(len(seeded), "run_seeded_handle")]
                else:
                    i = ch.draw(len(handles), "run_handle")
                h, rec = handles[i], records[i]
                # transient fault (fake back end): the emulator process is lost in shot k of
                # THIS run; nothing about the configuration changes
                transient = None
                if not real and ch.draw(6, "transient_fault") == 0:
                    transient = ch.draw(max(rec["shots"], 1), "transient_shot")
                    if ch.draw(3, "startup_failure") == 0:
                        transient = -1          # the back end cannot start at all
                    inst.fail_at = transient
                    faults["transient_run_failure"] += 1
                got = run_handle(h)
                if not real:
                    inst.fail_at = None
                history.append(f"{names[i]}.run()  # seed={rec['seed']}"
                               + (f", emulator process lost in shot {transient}" if transient is not None else ""))
                if transient is not None:
                    # narrow relaxation: this run may fail, its completed shots must be a
                    # prefix of the reference; it is not recorded as the handle's result
                    if rec["seed"] is not None:
                        want = reference_run(inst, rec, real, panics)
                        k_done = len(got["shots"])
                        if got["shots"] != want["shots"][:k_done]:
                            violation("NOT_REPRODUCIBLE", {"against": "reference_prefix"},
                                      {f"{names[i]}.run() completed shots": want["shots"][:k_done]},
                                      {f"{names[i]}.run() completed shots": got["shots"]})
                    log.add("run-transient", names[i], transient, got["error"])
                    check_all("run", None)
                    continue
                if not real:
                    args = getattr(inst, "last_args", None)
                    want_args = {k2: rec[k2] for k2 in ("n_qubits", "shots", "seed", "shot_offset",
                                                        "shot_increment", "n_processes", "timeout",
                                                        "verbose", "sim", "runtime", "error_model")}
                    if args is not None and args != want_args:
                        field = next(k2 for k2 in want_args if args.get(k2) != want_args[k2])
                        violation("BACKEND_ARGS", {"culprit_op": "run", "field": field},
                                  {f"{names[i]}.run() passes {field}": want_args[field]},
                                  {f"{names[i]}.run() passes {field}": args.get(field)})
                    probes["backend_args_compared"] += 1
                if got["error"]:
                    faults["failing_run"] += 1
                if rec["n_processes"] == 2:
                    probes["n_processes=2_run"] += 1
                if last_was_derive and len(handles) > 2:
                    probes["run_between_derivations"] += 1
                last_was_derive = False
                if rec["seed"] is not None:
                    probes["seeded_runs_compared"] += 1
                    want = reference_run(inst, rec, real, panics)
                    log.add("run", names[i], hashlib.sha256(repr(got).encode()).hexdigest()[:10])
                    if typed(got) != typed(want):
                        violation("NOT_REPRODUCIBLE", {"against": "reference"},
                                  {f"{names[i]}.run()": want}, {f"{names[i]}.run()": got},
                                  {"record": repr(rec), "step": steps})
                    if runs_seen[i]:
                        probes["rerun_of_seeded_handle"] += 1
                        if typed(runs_seen[i][0]) != typed(got):
                            violation("NOT_REPRODUCIBLE", {"against": "own_earlier_run"},
                                      {f"{names[i]}.run() earlier": runs_seen[i][0]},
                                      {f"{names[i]}.run() now": got})
                    else:
                        runs_seen[i].append(got)
                else:
                    log.add("run-unseeded", names[i])
                check_all("run", None)
            else:                                         # ---- builder ops
                probes["builder_ops"] += 1
                bi = ch.draw(len(builders), "builder")
                b, rec = builders[bi], copy.deepcopy(brecs[bi])
                m = ch.draw(5, "bmethod")
                if m == 0:
                    v = [None, "n1", "n2"][ch.draw(3, "bname")]
                    nb, rec["name"], op = b.with_name(v), v, f"with_name({v!r})"
                elif m == 1:
                    v = bool(ch.draw(2, "bverbose"))
                    nb, rec["verbose"], op = b.with_verbose(v), v, f"with_verbose({v})"
                elif m == 2:
                    key, v = ch.pick(("k1", "k2"), "bkey"), ch.draw(3, "bval")
                    nb, op = b.with_build_arg(key, v), f"with_build_arg({key!r}, {v})"
                    rec["custom_args"] = (rec["custom_args"] or {}) | {key: v}
                elif m == 3:
                    nb, op = b.with_build_dir(None), "with_build_dir(None)"
                    rec["build_dir"] = None
                else:
                    nb = None
                    op = "build(pkg, 4)"
                    spy.clear()
                    emu = b.build(object(), 4)
                    kw = spy[-1] if spy else {}
                    want_kw = {"name": rec["name"], "build_dir": rec["build_dir"],
                               "verbose": rec["verbose"], **(rec["custom_args"] or {})}
                    got_kw = {k2: v2 for k2, v2 in kw.items()
                              if k2 in want_kw or k2.startswith("k")}
                    if got_kw != want_kw:
                        violation("BUILD_ARGS", {"culprit_op": "build"}, want_kw, got_kw)
                    handles.append(emu)
                    records.append(default_record(4))
                    runs_seen.append([])
                    names.append(f"h{len(handles) - 1}")
                    history.append(f"{names[-1]} = builder{bi}.build(pkg, 4)")
                if nb is not None:
                    builders.append(nb)
                    brecs.append(rec)
                    history.append(f"builder{len(builders) - 1} = builder{bi}.{op}")
                log.add("builder", bi, op)
                check_all(op.split("(")[0], None)
    finally:
        builder_mod.selene_sim.build = orig_build
        if real:
            try:
                inst.delete_run_directories()
            except Exception:  # noqa: BLE001
                pass
    shape = hashlib.sha256("\n".join(history).encode()).hexdigest()[:16]
    nontrivial = probes["seeded_runs_compared"] > 0 and len(handles) >= 4
    res = {"violations": viol, "digest": log.digest(), "steps": steps, "faults": faults,
           "probes": probes, "keys": [shape], "nontrivial_keys": [shape] if nontrivial else [],
           "extra": {"real_selene_histories" if real else "fake_backend_histories": 1,
                     "real_selene_runs" if real else "fake_runs": probes["seeded_runs_compared"] * 2},
           "trace": {"backend": "real selene" if real else "fake", "program":
                     "prog_panic" if panics else "prog", "history": history,
                     "events": log.events[-30:]}}
    if viol or (nontrivial and ch.record[0] == 0 and ch.record[-1] % 4 == 0):
        res["sample"] = res["trace"]
    return res


def coverage(agg, plan: dict) -> dict:
    cleanup(plan)
    return {
        "distinct_nontrivial": len(agg.nontrivial_keys),
        "distinct_histories": len(agg.keys),
        "histories_real_selene": agg.extra.get("real_selene_histories", 0),
        "histories_fake_backend": agg.extra.get("fake_backend_histories", 0),
        "runs_real_selene": agg.extra.get("real_selene_runs", 0),
        "runs_fake_backend": agg.extra.get("fake_runs", 0),
        "rule": "one case = one seeded history of derivations/runs/builder ops over a growing handle tree; distinct = sha256 of the rendered history; non-trivial = >= 4 handles and at least one run of a seeded handle compared with the reference",
        "components_real": ["guppylang.emulator.instance (EmulatorInstance, _Options)",
                            "guppylang.emulator.builder (EmulatorBuilder)",
                            "guppylang.emulator.result / exceptions",
                            "selene_sim runtime, Quest/Stim/Coinflip, SimpleRuntime/SoftRZ, Ideal/Depolarizing (real-selene histories)"],
        "components_stub": ["Guppy compile step: fixture HUGR packages built with the installed guppylang 1.0.4",
                            "fake SeleneInstance (seed-resolution rule only) in the fake-backend histories",
                            "selene_sim.build replaced by a spy for EmulatorBuilder.build ops",
                            "compat shim (3 patch points)"],
    }
