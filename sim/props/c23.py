"""C23 - comptime tracing leaves the user's module untouched.

System under simulation (real code): mock_builtins, trace_function, trace_call,
set_tracing_state, TracedFunctionDef.compile_inner and the engine/compiler worklists that
decide when each comptime body is traced.
Reference model: the snapshot {name: id(value)} of every user module's __dict__ (and of
builtins.int/float/len) taken before an op; equal after the op, whether it succeeded or
raised.
Fault enumeration: for a generated configuration (1-3 modules, user bindings for the
shadowed names, comptime/regular functions calling each other) the harness enumerates
every fault position x fault kind of the traced body, plus failures before tracing starts
and after it ended, inside short histories of compile/check ops.
"""
from __future__ import annotations

import builtins
import hashlib
import warnings

from sim import genv
from sim.choices import Choices, EventLog
from sim.framework import std_run_job

ID = "C23"
LEVEL = "fault_enumeration"
CASE_CAP = 60.0
HASHSEED_INDEPENDENT = True
ASSUMPTIONS = [
    "module namespaces are compared as {name: id(value)}; dict order is not compared; no name is ignored (not even CPython's __warningregistry__, which appears when a warning is attributed to the module)",
    "faults are exceptions raised by steps of the traced body or by the tracer's own error exits; asynchronous interrupts between two bytecodes of the tracer are not injected (the property speaks of steps that raise)",
    "builtins.int/float/len are included in the snapshot: replacing them would change what the names resolve to in the user's module",
    "/repo sources run on newer dependency versions through the 3-point compat shim (verif/compat)",
]
MANIFEST = {
    "level": LEVEL,
    "technique": "deterministic simulation with fault enumeration: every fault position x fault kind of generated comptime bodies inside seeded compile/check histories, module namespaces compared with a before-snapshot after every op",
    "text": "For each seeded configuration (modules, user bindings of int/float/len as function/alias/non-callable/Guppy definition/absent, comptime and regular functions calling each other across modules, the user rebinding / newly binding / deleting a shadowed name between two ops, traced bodies that catch the failure of a nested comptime call and go on, compilations nested inside a trace (a traced body calling compile_function()/check() on another comptime definition), functions over a globals dict that is no module's, comptime functions that are plain / wrapped by a functools.wraps decorator of the same or of a helper module / defined in a helper module and registered from the user's module, the helper module's namespace being part of the snapshot) the check enumerates all fault positions (before s1 .. after sn) x 17 fault kinds of the traced body (user exceptions incl. StopIteration, GeneratorExit, KeyboardInterrupt, SystemExit and a BaseException subclass, tracer errors, a raising Python helper) plus pre-tracing and post-tracing failures, runs 1-6 op histories, and after every op requires every user module's {name: identity} map and builtins to equal the snapshot taken before it. Complete over positions x kinds per configuration; configurations are sampled.",
    "note": "Trusted: the snapshot oracle, the body/fault templates (each fault kind is confirmed to raise at its position by a probe counter), the compat shim.",
    "design_ref": "DESIGN.md section 3 (C23)",
}
SHADOWED = ("int", "float", "len")
BINDINGS = ("absent", "user_function", "alias", "non_callable", "guppy_def",
            "none_value", "zero", "user_class")
H_BINDINGS = ("absent", "absent", "user_function", "alias", "non_callable", "none_value")
# (plus, derived from callee_comptime_fails: callee_fails_caller_catches)
FAULTS = ("none", "raise_user_exception", "zero_division", "branch_on_dynamic",
          "iterate_dynamic", "qubit_used_twice", "wrong_return_type", "leak_qubit",
          "bad_guppy_call", "callee_comptime_fails", "assert_false", "bad_signature",
          "keyboard_interrupt_like", "raise_stop_iteration", "raise_generator_exit",
          "raise_keyboard_interrupt", "raise_system_exit", "helper_raises")
# how the Python function behind a comptime definition relates to the user's module
STYLES = ("plain", "plain", "plain", "wrapped_same", "wrapped_other", "foreign", "foreign_globals")


def warm() -> None:
    warnings.simplefilter("ignore")
    genv.warm_imports()


def reset_case() -> None:
    from guppylang_internals.engine import ENGINE
    from guppylang_internals.tracing.state import reset_state
    ENGINE.reset()
    reset_state()


def run_job(job: dict) -> dict:
    return std_run_job(job, run_case, reset_case)


def plan(tier: str, seed: int) -> dict:
    if tier == "quick":
        return {"n_cases": 640, "cases_per_job": 4, "budget_s": 110, "min_budget": 40,
                "params": {"max_body": 5}}
    return {"n_cases": 12000, "cases_per_job": 8, "budget_s": 1500, "min_budget": 200,
            "params": {"max_body": 8}}


# ---------------------------------------------------------------- configuration -> source
class SimFault(Exception):
    """Arbitrary exception class raised by user code in a traced body."""


def binding_src(name: str, kind: str) -> str:
    if kind == "absent":
        return ""
    if kind == "user_function":
        return f"def {name}(*a):\n    return 7\n\n"
    if kind == "alias":
        return f"{name} = {name}\n\n"
    if kind == "non_callable":
        return f"{name} = 5\n\n"
    if kind == "none_value":
        return f"{name} = None\n\n"
    if kind == "zero":
        return f"{name} = 0\n\n"
    if kind == "user_class":
        return f"class {name}:\n    pass\n\n"
    return f"@guppy.declare\ndef {name}(v: bool) -> bool: ...\n\n"


def sig_type(bindings: dict) -> str:
    """A parameter type whose name still denotes the builtin type in this module."""
    for t in ("int", "float"):
        if bindings[t] in ("absent", "alias"):
            return t
    return "bool"


BENIGN = (
    "a = x",
    "n = len([1, 2, 3])",
    "b = int(2.5)",
    "c = float(3)",
    "d = int(x)" ,
    "e = helper_py(3)",
    "r = {regular}(x)",
    "g = {comptime}(x)",
    "for i in range(2):\n        a = x",
    "q0 = qubit()\n    h(q0)\n    discard(q0)",
    "t = (x, x)",
    # struct objects mutated at comptime, also with a value of another type for a while
    "ps = PS(1, 2.5)\n    ps.x = ps.y\n    ps.x = 3",
    "ps2 = PS(2, 0.5)\n    ps2.y = ps2.x\n    ps2.y = 1.5",
)


def fault_stmt(kind: str, ty: str) -> str | None:
    return {
        "raise_user_exception": "raise SimFault('boom')",
        "zero_division": "z = 1 // 0",
        "branch_on_dynamic": "if x:\n        pass",
        "iterate_dynamic": "for it in x:\n        pass",
        "qubit_used_twice": "qq = qubit()\n    discard(qq)\n    discard(qq)",
        "leak_qubit": "leaked = qubit()",
        "bad_guppy_call": "bad = {regular}((1, 2, 3))",
        "assert_false": "assert False, 'user assertion'",
        "keyboard_interrupt_like": "raise SimBase()",
        "raise_stop_iteration": "raise StopIteration()",
        "raise_generator_exit": "raise GeneratorExit()",
        "raise_keyboard_interrupt": "raise KeyboardInterrupt()",
        "raise_system_exit": "raise SystemExit(3)",
        "helper_raises": "hr = helper_raises(1)",
    }.get(kind)


def gen_config(ch: Choices, params: dict) -> dict:
    n_mod = ch.rng_int(1, 3, "n_modules")
    mods = []
    for m in range(n_mod):
        bindings = {n: ch.pick(BINDINGS, "binding_" + n) for n in SHADOWED}
        ty = sig_type(bindings)
        mods.append({"bindings": bindings, "ty": ty,
                     "n_ct": ch.rng_int(1, 2, "n_comptime"),
                     "nested_scope": ch.draw(4, "nested_scope") == 0})
    # function table: (module, local name); comptime fns ct{m}_{j}, regular rg{m}
    cts = [(m, j) for m in range(n_mod) for j in range(mods[m]["n_ct"])]
    helper = {n: ch.pick(H_BINDINGS, "hbinding_" + n) for n in SHADOWED}
    styles = {}
    for (m, j) in cts:
        st = ch.pick(STYLES, "style")
        if st.startswith("foreign") and mods[m]["ty"] != "bool" and helper[mods[m]["ty"]] not in ("absent", "alias"):
            st = "plain"   # the annotation name must denote the builtin type in both namespaces
        styles[(m, j)] = st
    bodies = {}
    for (m, j) in cts:
        n = ch.rng_int(1, params.get("max_body", 5), "body_len")
        stmts = []
        for _ in range(n):
            s = ch.pick(BENIGN, "stmt")
            tgt = ch.pick(cts, "call_target")
            rg = ch.draw(n_mod, "regular_target")
            # calls only to functions whose parameter type equals ours
            if "{comptime}" in s and mods[tgt[0]]["ty"] != mods[m]["ty"]:
                s = "a = x"
            if "{regular}" in s and mods[rg]["ty"] != mods[m]["ty"]:
                s = "a = x"
            if s == "d = int(x)" and mods[m]["ty"] == "bool":
                s = "a = x"
            local = not styles[(m, j)].startswith("foreign")   # foreign bodies live in the helper module
            stmts.append(s.replace("{comptime}", f"M{tgt[0]}.ct{tgt[0]}_{tgt[1]}"
                                   if tgt[0] != m or not local else f"ct{tgt[0]}_{tgt[1]}")
                         .replace("{regular}", f"M{rg}.rg{rg}" if rg != m or not local else f"rg{rg}"))
        bodies[(m, j)] = stmts
    # regular functions may call a comptime function of the same type
    regs = {}
    for m in range(n_mod):
        same = [c for c in cts if mods[c[0]]["ty"] == mods[m]["ty"]]
        regs[m] = ch.pick(same, "reg_calls") if same and ch.draw(2, "reg_calls_ct") else None
    return {"mods": mods, "cts": cts, "bodies": bodies, "regs": regs, "helper": helper,
            "styles": styles}


LOGGED = ("def {name}(fn):\n    @functools.wraps(fn)\n    def wrapper(*args, **kwargs):\n"
          "        return fn(*args, **kwargs)\n    return wrapper\n\n")
HELPERS_PY = ("NEST = [0]\n\n"
              "def helper_py(v):\n    return [v, v]\n\n"
              "def helper_raises(v):\n    raise SimFault('helper')\n\n")


def function_source(cfg: dict, mm: int, j: int, fault: dict | None) -> tuple[str, str]:
    """(decorated definition for the owner module, plain definition for the helper module
    or '') of comptime function (mm, j)."""
    mod = cfg["mods"][mm]
    ty = mod["ty"]
    style = cfg["styles"][(mm, j)]
    local = not style.startswith("foreign")
    stmts = list(cfg["bodies"][(mm, j)])
    if fault and fault.get("nested_compile") and fault["fn"] == (mm, j):
        # the definition compiled from inside a trace must not lead back to its caller
        # (unbounded mutual recursion of whole compilations is a workload bug, not a fault)
        import re as _re
        stmts = ["a = x" if _re.search(r"\b(ct\d+_\d+|rg\d+)\(", st) else st for st in stmts]
    if fault and fault.get("reentrant") and fault["fn"] == (mm, j):
        # the body compiles ITS OWN definition once (guarded): the same comptime function is
        # traced again while its trace is still running
        me = f"ct{mm}_{j}" if local else f"M{mm}.ct{mm}_{j}"
        guard = ["if NEST[0] == 0:", "        NEST[0] = 1", "        try:",
                 f"            nc = {me}.compile_function()"]
        guard += (["        except BaseException:", "            nc = None"]
                  if fault["reentrant"] == "inner_raises_caught" else [])
        guard += ["        finally:", "            NEST[0] = 0"]
        pre = ["if NEST[0] == 1:\n        raise SimFault('inner trace')"] \
            if fault["reentrant"].startswith("inner_raises") else []
        stmts = pre + ["\n    ".join(guard)] + stmts
        if fault["reentrant"] == "outer_raises":
            stmts.append("raise SimFault('outer, after the nested trace')")
    if fault and fault.get("caller") == (mm, j):
        cm, cj = fault["fn"]
        call = f"ct{cm}_{cj}(x)" if cm == mm and local else f"M{cm}.ct{cm}_{cj}(x)"
        if fault.get("nested_compile"):
            # the traced body itself invokes the compiler on another comptime definition:
            # a compilation nested inside a trace (re-entrant engine, nested tracing state)
            call = call[:-3] + "." + fault["nested_compile"] + "()"
        if fault.get("catch"):
            # the traced body catches the failure of the nested comptime call and goes on
            stmts.insert(0, f"try:\n        cc = {call}\n    except BaseException:\n        cc = x")
        else:
            stmts.insert(0, f"cc = {call}")
    ret_ty, ret = ty, "return x"
    sig_ty = ty
    if fault and fault["fn"] == (mm, j):
        k = fault["kind"]
        if k == "wrong_return_type":
            ret = "return (x, x)"
        elif k == "bad_signature":
            sig_ty = "NoSuchType"
        else:
            fs = fault_stmt(k, ty)
            if fs is not None:
                fs = fs.replace("{regular}", f"rg{mm}" if local else f"M{mm}.rg{mm}")
                stmts.insert(min(fault["pos"], len(stmts)), fs)
    body = "\n".join("    " + s for s in stmts + [ret])
    if style == "foreign_globals":
        # the function object is rebuilt over a globals dict that is NOT a module's dict
        return (f"ct{mm}_{j} = guppy.comptime(H.fr{mm}_{j})\n\n",
                f"def fr{mm}_{j}(x: {sig_ty}) -> {ret_ty}:\n{body}\n\n"
                f"CUSTOM_GLOBALS.append(dict(globals()))\n"
                f"fr{mm}_{j} = types.FunctionType(fr{mm}_{j}.__code__, CUSTOM_GLOBALS[-1], 'fr{mm}_{j}')\n\n")
    if not local:
        return (f"ct{mm}_{j} = guppy.comptime(H.fr{mm}_{j})\n\n",
                f"def fr{mm}_{j}(x: {sig_ty}) -> {ret_ty}:\n{body}\n\n")
    deco = {"plain": "", "wrapped_same": "@logged_same\n", "wrapped_other": "@H.logged\n"}[style]
    fn = f"@guppy.comptime\n{deco}def ct{mm}_{j}(x: {sig_ty}) -> {ret_ty}:\n{body}\n\n"
    if mod["nested_scope"]:
        fn = ("def make_%d():\n" % j + "\n".join("    " + l for l in fn.splitlines())
              + f"\n    return ct{mm}_{j}\n\nct{mm}_{j} = make_{j}()\n\n")
    return fn, ""


def helper_source(cfg: dict, fault: dict | None) -> str:
    """The helper module H: a decorator, its own bindings of the shadowed names, and the
    bodies of `foreign` comptime functions (registered from the user's module)."""
    src = "import functools\nimport types\nfrom sim.props.c23 import SimFault, SimBase\n\nCUSTOM_GLOBALS = []\n\n"
    for n in SHADOWED:
        src += binding_src(n, cfg["helper"][n])
    src += HELPERS_PY + LOGGED.format(name="logged")
    for (mm, j) in cfg["cts"]:
        src += function_source(cfg, mm, j, fault)[1]
    return src


def module_source(cfg: dict, m: int, fault: dict | None) -> str:
    mod = cfg["mods"][m]
    ty = mod["ty"]
    src = "import functools\nimport c23_H as H\nfrom sim.props.c23 import SimFault, SimBase\n\n"
    for n in SHADOWED:
        src += binding_src(n, mod["bindings"][n])
    src += HELPERS_PY + LOGGED.format(name="logged_same")
    src += "@guppy.struct\nclass PS:\n    x: int\n    y: float\n\n"
    tgt = cfg["regs"][m]
    call = "x"
    if tgt is not None:
        call = (f"ct{tgt[0]}_{tgt[1]}(x)" if tgt[0] == m else f"M{tgt[0]}.ct{tgt[0]}_{tgt[1]}(x)")
    src += f"@guppy\ndef rg{m}(x: {ty}) -> {ty}:\n    return {call}\n\n"
    for (mm, j) in cfg["cts"]:
        if mm == m:
            src += function_source(cfg, mm, j, fault)[0]
    # an argument-free entry point for `compile()`
    src += (f"@guppy.comptime\ndef entry{m}() -> None:\n    v = {'True' if ty == 'bool' else '1' if ty == 'int' else '1.5'}\n"
            f"    w = ct{m}_0(v)\n\n")
    return src


class SimBase(BaseException):
    """A BaseException subclass (not an Exception): models KeyboardInterrupt-like exits
    raised by a step of the traced body."""


# ------------------------------------------------------------------------------ oracle
IGNORED = set()


def snapshot(mods: list, helper=None) -> dict:
    snap = {f"M{i}": {k: id(v) for k, v in m.__dict__.items() if k not in IGNORED}
            for i, m in enumerate(mods)}
    if helper is not None:
        snap["H"] = {k: id(v) for k, v in helper.__dict__.items() if k not in IGNORED}
        for gi, g in enumerate(helper.CUSTOM_GLOBALS):      # globals dicts that are no module's
            snap[f"G{gi}"] = {k: id(v) for k, v in g.items() if k not in IGNORED}
    snap["builtins"] = {n: id(getattr(builtins, n)) for n in SHADOWED}
    return snap


def diff(before: dict, after: dict) -> list[tuple[str, str, str]]:
    out = []
    for mod in before:
        b, a = before[mod], after[mod]
        for k in a.keys() - b.keys():
            out.append(("NAME_LEAKED", mod, k))
        for k in b.keys() - a.keys():
            out.append(("NAME_LOST", mod, k))
        for k in b.keys() & a.keys():
            if a[k] != b[k]:
                out.append(("NAME_REBOUND", mod, k))
    return sorted(out)


# ------------------------------------------------------------------------------- a case
def run_case(ch: Choices, params: dict) -> dict:
    cfg = gen_config(ch, params)
    log = EventLog()
    viol: list[dict] = []
    faults: dict[str, int] = {}
    probes = {"raise_while_user_binding_exists": 0, "raise_in_callee_traced_after_caller": 0,
              "two_modules_mocked_in_one_compile": 0, "fault_fired": 0, "fault_not_reached": 0,
              "ops_ok": 0, "ops_raised": 0, "raise_in_wrapped_or_foreign_fn": 0,
              "user_rebinds_between_ops": 0, "ops_with_warnings_as_errors": 0}
    steps = 0
    # the enumeration: every (comptime fn of module 0.., position, kind) for ONE drawn
    # target function, all positions x all kinds
    target = ch.pick(cfg["cts"], "fault_fn")
    n_pos = len(cfg["bodies"][target]) + 1
    positioned = [k for k in FAULTS if fault_stmt(k, "int") is not None]
    plans: list[dict | None] = [None]
    for k in FAULTS[1:]:
        if k in positioned:
            plans += [{"fn": target, "kind": k, "pos": p} for p in range(n_pos)]
        elif k == "callee_comptime_fails":
            others = [c for c in cfg["cts"] if c != target
                      and cfg["mods"][c[0]]["ty"] == cfg["mods"][target[0]]["ty"]]
            if others:
                callee = others[0]
                plans += [{"fn": callee, "kind": "raise_user_exception", "pos": p,
                           "caller": target, "label": k}
                          for p in range(len(cfg["bodies"][callee]) + 1)]
                plans += [{"fn": callee, "kind": kk, "pos": p, "caller": target, "catch": True,
                           "label": "callee_fails_caller_catches"}
                          for kk in ("raise_user_exception", "leak_qubit", "keyboard_interrupt_like")
                          for p in (0, len(cfg["bodies"][callee]))]
                for api in ("compile_function", "check"):
                    plans.append({"fn": callee, "kind": "none_", "pos": 0, "caller": target,
                                  "nested_compile": api, "label": "nested_compile_ok"})
                    plans += [{"fn": callee, "kind": kk, "pos": p, "caller": target, "catch": c,
                               "nested_compile": api,
                               "label": "nested_compile_fails" + ("_caught" if c else "")}
                              for kk in ("raise_user_exception", "wrong_return_type")
                              for p in (0, len(cfg["bodies"][callee])) for c in (False, True)]
        else:
            plans.append({"fn": target, "kind": k, "pos": 0})
    for mode in ("ok", "outer_raises", "inner_raises", "inner_raises_caught"):
        plans.append({"fn": target, "kind": "none_", "pos": 0, "reentrant": mode,
                      "label": "reentrant_trace_" + mode})
    n_hist_ops = ch.rng_int(1, 4, "n_ops")
    op_draws = [(ch.draw(3, "op_kind"), ch.draw(8, "op_target")) for _ in range(n_hist_ops)]
    # between two ops the *user* may rebind, newly bind or delete one of the shadowed names
    # in one of the modules (the snapshot of the next op is taken afterwards)
    # environment fault: warnings promoted to errors (-W error / pytest filterwarnings=error)
    # for the whole case, so that any warning issued while tracing becomes a raising step
    warnings_as_errors = ch.draw(4, "warnings_as_errors") == 0
    mut_draws = [(ch.draw(3, "user_mutates") == 0, ch.draw(4, "mut_module"), ch.draw(3, "mut_name"),
                  ch.draw(4, "mut_action")) for _ in range(n_hist_ops + 1)]
    shapes = []
    for pi, fault in enumerate(plans):
        reset_case()
        tag = f"{ch.record[0]}_{ch.record[1] if len(ch.record) > 1 else 0}_{pi}"
        mods = []
        defn_error = None
        hmod = genv.make_module("c23_H", helper_source(cfg, fault))
        for m in range(len(cfg["mods"])):
            src = module_source(cfg, m, fault)
            try:
                mod = genv.make_module(f"c23_M{m}", src)
            except BaseException as e:  # noqa: BLE001 - definition-time failure
                defn_error = f"{type(e).__name__}: {e}"
                break
            mods.append(mod)
        for i, mod in enumerate(mods):
            for k2, other in enumerate(mods):
                if k2 != i:
                    setattr(mod, f"M{k2}", other)
            setattr(hmod, f"M{i}", mod)
            for g in hmod.CUSTOM_GLOBALS:
                g[f"M{i}"] = mod
        if defn_error:
            log.add("defn-error", pi, defn_error[:80])
            continue
        kind = (fault.get("label") or fault["kind"]) if fault else "none"
        # ops: entry (compile), target fn (compile_function / check), a regular fn
        cands = []
        for m, mod in enumerate(mods):
            cands.append((f"M{m}.entry{m}.compile()", lambda mod=mod, m=m: getattr(mod, f"entry{m}").compile()))
            cands.append((f"M{m}.rg{m}.compile_function()", lambda mod=mod, m=m: getattr(mod, f"rg{m}").compile_function()))
            cands.append((f"M{m}.rg{m}.check()", lambda mod=mod, m=m: getattr(mod, f"rg{m}").check()))
        tm, tj = target
        tfn = getattr(mods[tm], f"ct{tm}_{tj}")
        cands.append((f"M{tm}.ct{tm}_{tj}.compile_function()", lambda: tfn.compile_function()))
        cands.append((f"M{tm}.ct{tm}_{tj}.compile()", lambda: tfn.compile()))
        ops = [cands[-2]] + [cands[t % len(cands)] for _, t in op_draws]
        fired = False
        for oi, (name, thunk) in enumerate(ops):
            steps += 1
            do_mut, mm_, mn_, ma_ = mut_draws[oi % len(mut_draws)]
            if do_mut and oi > 0:
                target_mod = (mods + [hmod])[mm_ % (len(mods) + 1)]
                nm = SHADOWED[mn_]
                if ma_ == 0:
                    setattr(target_mod, nm, lambda *a: 7)
                elif ma_ == 1:
                    setattr(target_mod, nm, getattr(builtins, nm))
                elif ma_ == 2:
                    setattr(target_mod, nm, None)
                elif nm in target_mod.__dict__:
                    delattr(target_mod, nm)
                probes["user_rebinds_between_ops"] += 1
                log.add(pi, "user-mutation", mm_ % (len(mods) + 1), nm, ma_)
            before = snapshot(mods, hmod)
            try:
                if warnings_as_errors:
                    with warnings.catch_warnings():
                        warnings.simplefilter("error")
                        thunk()
                    probes["ops_with_warnings_as_errors"] += 1
                else:
                    thunk()
                res = "ok"
                probes["ops_ok"] += 1
            except BaseException as e:  # noqa: BLE001 - every exit must restore
                res = type(e).__name__
                probes["ops_raised"] += 1
                fired = True
                if cfg["styles"][target] != "plain":
                    probes["raise_in_wrapped_or_foreign_fn"] += 1
                if any(b != "absent" for b in cfg["mods"][tm]["bindings"].values()):
                    probes["raise_while_user_binding_exists"] += 1
            after = snapshot(mods, hmod)
            d = diff(before, after)
            log.add(pi, kind, fault["pos"] if fault else -1, name, res, d)
            for cls, mod, nm in d:
                viol.append({"cls": f"C23/{cls}", "sig": {"after": "raise" if res != "ok" else "success",
                                                          "name": nm if nm in SHADOWED else "other"},
                             "expected": f"{mod}.{nm} as before the op",
                             "observed": cls, "detail": {"op": name, "fault": fault, "result": res,
                                                         "style": cfg["styles"][target],
                                                         "bindings": cfg["helper"] if mod[0] in "HG" else cfg["mods"][int(mod[1:])]["bindings"] if mod != "builtins" else None}})
            if fault and fault.get("caller") and res != "ok":
                probes["raise_in_callee_traced_after_caller"] += 1
        faults[kind] = faults.get(kind, 0) + (1 if fired else 0)
        if fault is None:
            probes["nofault_plan_all_ops_ok" if not fired else "nofault_plan_raised"] = \
                probes.get("nofault_plan_all_ops_ok" if not fired else "nofault_plan_raised", 0) + 1
        if fault is not None:
            probes["fault_fired" if fired else "fault_not_reached"] += 1
        shapes.append((kind, fault["pos"] if fault else -1, fired))
        if len(mods) >= 2:
            probes["two_modules_mocked_in_one_compile"] += 1
    key = hashlib.sha256(repr((cfg["mods"], sorted(cfg["bodies"].items()),
                               sorted(cfg["regs"].items()), sorted(cfg["helper"].items()),
                               sorted(cfg["styles"].items()))).encode()).hexdigest()[:16]
    plans_fired = sum(1 for s in shapes if s[2])
    res = {"violations": viol[:5], "digest": log.digest(), "steps": steps, "faults": faults,
           "probes": probes, "keys": [key + f"/{k}/{p}" for k, p, f in shapes],
           "nontrivial_keys": [key + f"/{k}/{p}" for k, p, f in shapes if f],
           "extra": {"fault_plans": len(plans), "fault_plans_fired": plans_fired,
                     "configurations": 1},
           "trace": {"bindings": [m["bindings"] for m in cfg["mods"]],
                     "helper_bindings": cfg["helper"],
                     "styles": {f"ct{m}_{j}": st for (m, j), st in cfg["styles"].items()},
                     "source_H_no_fault": helper_source(cfg, None),
                     "target": f"ct{target[0]}_{target[1]}", "body": cfg["bodies"][target],
                     "ops": [n for n, _ in ops] if plans else [],
                     "source_M0_no_fault": module_source(cfg, 0, None),
                     "events": log.events[-12:]}}
    if viol or ch.record[0] == 1 and ch.record[-1] % 3 == 0:
        res["sample"] = res["trace"]
    return res


def coverage(agg, plan: dict) -> dict:
    return {
        "distinct_nontrivial": len(agg.nontrivial_keys),
        "fault_plans_enumerated": agg.extra.get("fault_plans", 0),
        "evaluations_measured": agg.extra.get("fault_plans", 0),
        "fault_plans_that_raised": agg.extra.get("fault_plans_fired", 0),
        "configurations": agg.extra.get("configurations", 0),
        "exhaustive": False,
        "rule": "one evaluation = one fault plan (a fresh set of modules + a 2-5 op history with one fault kind at one position); one case = one seeded configuration (modules, bindings of int/float/len, bodies, call graph); for it ALL fault positions x fault kinds of one drawn comptime body are enumerated, each as a fresh set of modules and a 2-5 op history; distinct = (configuration hash, fault kind, position); non-trivial = the fault actually fired (an op raised). Enumeration is complete per configuration; configurations are sampled.",
        "components_real": ["tracing/builtins_mock.py mock_builtins", "tracing/function.py trace_function/trace_call",
                            "tracing/state.py", "definition/traced.py", "engine + compiler worklists", "decorators"],
        "components_stub": ["compat shim (3 patch points)"],
    }
