"""Probe programs for C33: one gated construct (or none) placed in a drawn context."""
from __future__ import annotations

# construct -> (statements using it inside a body that has `a: int`, `q: qubit` free?, helpers)
CONSTRUCTS = {
    # kind: (helper definitions at module level, body statements, needs)
    "none": ("", ["t0 = a + 1"]),
    "list_lit": ("", ["xs = [a, 2, 3]"]),
    "list_comp": ("", ["xs = [i + a for i in range(3)]"]),
    "list_ann_local": ("", ["xs: list[int] = [a]"]),
    "tensor_syn": ("@guppy\ndef tf(v: int) -> int:\n    return v\n\n@guppy\ndef tg(v: bool) -> bool:\n    return v\n\n",
                   ["t1, t2 = (tf, tg)(a, True)"]),
    "tensor_chk": ("@guppy\ndef tf(v: int) -> int:\n    return v\n\n@guppy\ndef tg(v: bool) -> bool:\n    return v\n\n",
                   ["t3: tuple[int, bool] = (tf, tg)(a, True)"]),
    "closure": ("", ["def inner(b: int) -> int:", "    return a + b", "t4 = inner(1)"]),
    "closure2": ("", ["def outer(b: int) -> int:", "    def inner2(c: int) -> int:",
                      "        return b + c", "    return inner2(b)", "t5 = outer(a)"]),
    "mod_dagger": ("", ["with dagger:", "    pass"]),
    "mod_control": ("", ["qc = qubit()", "with control(qc):", "    pass", "discard(qc)"]),
    "mod_power": ("", ["with power(2):", "    pass"]),
}
# signature-level constructs (the construct is in the signature of a function)
SIG_CONSTRUCTS = {
    "list_ann_param": "@guppy.declare\ndef lp(xs: list[int]) -> None: ...\n\n",
    "list_ann_ret": "@guppy.declare\ndef lr() -> list[int]: ...\n\n",
    "list_ann_field": "@guppy.struct\nclass SL:\n    xs: list[int]\n    n: int\n\n@guppy.declare\ndef lf(s: SL) -> int: ...\n\n",
    "list_ann_nested_sig": "@guppy\ndef lns(a: int) -> int:\n    def inner(xs: list[int]) -> int:\n        return 1\n    return a\n\n",
}
UNGATED = {"none"}
CONTEXTS = ("top", "in_if", "in_while", "in_for", "in_nested_fn", "in_callee", "in_method")

MOD_PRELUDE = "dagger = object()\ncontrol = object()\npower = object()\n\n"


def indent(lines, n):
    return [" " * n + l for l in lines]


def program(kind: str, ctx: str) -> str:
    """Source of a module defining `main` (entry for check) using `kind` in `ctx`."""
    src = MOD_PRELUDE
    if kind in SIG_CONSTRUCTS:
        src += SIG_CONSTRUCTS[kind]
        # the declared function is only *referenced* from the context
        body = ["fref = " + {"list_ann_param": "lp", "list_ann_ret": "lr",
                             "list_ann_field": "lf", "list_ann_nested_sig": "lns"}[kind]]
        helpers = ""
    else:
        helpers, body = CONSTRUCTS[kind]
    src += helpers
    if ctx == "top":
        lines = body
    elif ctx == "in_if":
        lines = ["if a > 0:"] + indent(body, 4) + ["else:", "    pass"]
    elif ctx == "in_while":
        lines = ["k = 0", "while k < 2:"] + indent(body, 4) + ["    k += 1"]
    elif ctx == "in_for":
        lines = ["for j in range(2):"] + indent(body, 4)
    elif ctx == "in_nested_fn":
        lines = ["def wrap(a: int) -> int:"] + indent(body, 4) + ["    return a", "w = wrap(a)"]
    elif ctx in ("in_callee", "in_method"):
        lines = None
    else:
        raise ValueError(ctx)
    if ctx == "in_callee":
        src += "@guppy\ndef callee(a: int) -> int:\n" + "\n".join(indent(body, 4)) + "\n    return a\n\n"
        src += "@guppy\ndef main(a: int) -> int:\n    return callee(a)\n"
    elif ctx == "in_method":
        src += ("@guppy.struct\nclass S:\n    f: int\n\n    @guppy\n    def meth(self: \"S\", a: int) -> int:\n"
                + "\n".join(indent(body, 8)) + "\n        return a + self.f\n\n")
        src += "@guppy\ndef main(a: int) -> int:\n    return S(1).meth(a)\n"
    else:
        src += "@guppy\ndef main(a: int) -> int:\n" + "\n".join(indent(lines, 4)) + "\n    return a\n"
    return src


ALL_KINDS = tuple(CONSTRUCTS) + tuple(SIG_CONSTRUCTS)
