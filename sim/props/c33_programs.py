"""Probe programs for C33: one gated construct (or none) placed in a drawn context,
optionally with a *fault*: a second, ordinary mistake planted before / inside / after the
gated construct so that the check fails part-way through the pipeline (CFG construction,
type checking, linearity checking) with a legitimate GuppyError."""
from __future__ import annotations

_TF = ("@guppy\ndef tf(v: int) -> int:\n    return v\n\n"
       "@guppy\ndef tg(v: bool) -> bool:\n    return v\n\n")

# kind: (helper definitions at module level, body statements).  A body line consisting of
# "{IN}" (after its indentation) marks where an `inside` fault goes; without a fault it is
# replaced by `pass`.
CONSTRUCTS = {
    "none": ("", ["t0 = a + 1"]),
    "list_lit": ("", ["xs = [a, 2, 3]"]),
    "list_comp": ("", ["xs = [i + a for i in range(3)]"]),
    "list_comp_nested": ("", ["xs = [i + j for i in range(2) for j in range(a)]"]),
    "list_ann_local": ("", ["xs: list[int] = [a]"]),
    # the same constructs nested inside other expressions
    "list_comp_in_gen_elt": ("", ["xs = array([y + a for y in range(x)] for x in range(3))"]),
    "list_lit_in_gen_elt": ("", ["xs = array([x, a] for x in range(3))"]),
    "list_comp_in_tuple": ("", ["tl = ([i for i in range(a)], 1)"]),
    "list_lit_in_ifexp": ("", ["xs = [a] if a > 0 else [a, a]"]),
    "list_comp_in_list_comp": ("", ["xs = [[j + a for j in range(i)] for i in range(3)]"]),
    "list_comp_in_generic_call": ("TG = guppy.type_var(\"TG\", copyable=False, droppable=False)\n\n@guppy.declare\ndef idg(x: TG @owned) -> TG: ...\n\n",
                                  ["xs = idg([i + a for i in range(3)])"]),
    "tensor_in_tuple": (_TF, ["tt = ((tf, tg)(a, True), 1)"]),
    # ... and inline in an argument of a call to an OVERLOADED function (overload resolution
    # tries every variant and swallows their errors)
    "list_lit_in_result_arg": ("", ["result(\"t\", [a, 2, 3][0])"]),
    "list_lit_in_range_arg": ("", ["for ri in range(len([a, 2])):", "    pass"]),
    "tensor_in_result_arg": (_TF, ["result(\"t\", (tf, tg)(a, True)[0])"]),
    "list_lit_in_user_overload": ("OT = guppy.type_var(\"OT\", copyable=False, droppable=True)\n\n@guppy\ndef ovi(x: int) -> int:\n    return x\n\n"
                                  "@guppy\ndef ovg(x: OT @owned) -> int:\n    return 1\n\n@guppy.overload(ovi, ovg)\ndef ovr(): ...\n\n",
                                  ["ro = ovr([a, 2, 3])"]),
    "list_comp_in_user_overload": ("OT = guppy.type_var(\"OT\", copyable=False, droppable=True)\n\n@guppy\ndef ovi(x: int) -> int:\n    return x\n\n"
                                   "@guppy\ndef ovg(x: OT @owned) -> int:\n    return 1\n\n@guppy.overload(ovi, ovg)\ndef ovr(): ...\n\n",
                                   ["ro = ovr([i + a for i in range(3)])"]),
    "list_arg": ("@guppy.declare\ndef la(xs: list[int]) -> None: ...\n\n", ["la([a, 1])"]),
    "tensor_syn": (_TF, ["t1, t2 = (tf, tg)(a, True)"]),
    "tensor_chk": (_TF, ["t3: tuple[int, bool] = (tf, tg)(a, True)"]),
    "tensor_var": (_TF, ["ft = (tf, tg)", "t6, t7 = ft(a, False)"]),
    "closure": ("", ["def inner(b: int) -> int:", "    {IN}", "    return a + b", "t4 = inner(1)"]),
    "closure2": ("", ["def outer(b: int) -> int:", "    def inner2(c: int) -> int:",
                      "        {IN}", "        return b + c", "    return inner2(b)", "t5 = outer(a)"]),
    "closure_branch": ("", ["def innerb(b: int) -> int:", "    if b > 0:", "        return b",
                            "    {IN}", "    return a", "t8 = innerb(1)"]),
    "closure_captures_local_fn": ("", ["def hh(b: int) -> int:", "    return b + 1", "def gg(c: int) -> int:",
                                       "    {IN}", "    return hh(c)", "t9 = gg(a)"]),
    "closure_captures_callable": ("@guppy\ndef cidt(v: int) -> int:\n    return v\n\n",
                                  ["kf = cidt", "def gk(c: int) -> int:", "    {IN}", "    return kf(c)",
                                   "t10 = gk(a)"]),
    "mod_dagger": ("", ["with dagger:", "    {IN}"]),
    "mod_control": ("", ["qc = qubit()", "with control(qc):", "    {IN}", "discard(qc)"]),
    "mod_power": ("", ["with power(2):", "    {IN}"]),
    "mod_nested": ("", ["qc = qubit()", "with control(qc):", "    with dagger:", "        {IN}",
                        "discard(qc)"]),
    "mod_multi": ("", ["qc = qubit()", "with control(qc), dagger:", "    {IN}", "discard(qc)"]),
    "mod_gate": ("", ["qc = qubit()", "qt = qubit()", "with control(qc):", "    {IN}",
                      "    h(qt)", "discard(qc)", "discard(qt)"]),
}
# signature-level constructs (the construct is in the signature of a function)
SIG_CONSTRUCTS = {
    "list_ann_param": "@guppy.declare\ndef lp(xs: list[int]) -> None: ...\n\n",
    "list_ann_ret": "@guppy.declare\ndef lr() -> list[int]: ...\n\n",
    "list_ann_field": "@guppy.struct\nclass SL:\n    xs: list[int]\n    n: int\n\n@guppy.declare\ndef lf(s: SL) -> int: ...\n\n",
    "list_ann_nested_sig": "@guppy\ndef lns(a: int) -> int:\n    def inner(xs: list[int]) -> int:\n        return 1\n    return a\n\n",
    "list_ann_generic_arg": "@guppy.declare\ndef lg(xs: tuple[list[int], int]) -> None: ...\n\n",
    "list_ann_callable": "@guppy.declare\ndef lc(f: Callable[[list[int]], int]) -> None: ...\n\n",
}
_SIG_REF = {"list_ann_param": "lp", "list_ann_ret": "lr", "list_ann_field": "lf",
            "list_ann_nested_sig": "lns", "list_ann_generic_arg": "lg", "list_ann_callable": "lc"}
UNGATED = {"none"}
CONTEXTS = ("top", "in_if", "in_else", "in_while", "in_for", "in_nested_fn", "in_nested_fn_under_if",
            "in_nested_fn_under_for", "in_nested_nested_fn", "in_callee", "in_method",
            # struct methods that are first reached through a pure *probe* (iterable unpacking
            # looks for __iter__, callable(x) for __call__) and only then used
            "in_iter_method_unpacked", "in_call_method_probed",
            # unreachable code: after a jump at the top level and inside nested blocks
            "dead_after_return", "dead_in_if_after_return", "dead_in_while_after_break")

# the "fault": an ordinary mistake, by the pipeline stage at which it is reported
FAULTS = {
    "unsupported_stmt": ["import os"],                   # CFG construction
    "badmod": ["with nomod:", "    pass"],                # CFG construction (modifier handling)
    "withas": ["with dagger as dd:", "    pass"],         # CFG construction (modifier handling)
    "ret_in_with": ["with dagger:", "    return a"],      # CFG construction (block validation)
    "undef": ["zz = undefined_zz + 1"],                   # type checking
    "type": ["zt: bool = 1.5"],                           # type checking
    "leak": ["ql = qubit()"],                             # linearity checking
}
POSITIONS = ("before", "after", "inside")

MOD_PRELUDE = ("from guppylang.std.builtins import Range, SizedIter, callable\n"
               "dagger = object()\ncontrol = object()\npower = object()\n\n")


def indent(lines, n):
    return [" " * n + l for l in lines]


def has_inside(kind: str) -> bool:
    return kind in CONSTRUCTS and any(l.strip() == "{IN}" for l in CONSTRUCTS[kind][1])


def _body(kind: str, fault) -> tuple[str, list[str]]:
    if kind in SIG_CONSTRUCTS:
        helpers, body = SIG_CONSTRUCTS[kind], ["fref = " + _SIG_REF[kind]]
    else:
        helpers, body = CONSTRUCTS[kind]
    fk, pos = fault if fault else (None, None)
    if pos == "inside" and not has_inside(kind):
        pos = "after"
    out = []
    if pos == "before":
        out += FAULTS[fk]
    for l in body:
        if l.strip() == "{IN}":
            pad = len(l) - len(l.lstrip())
            out += indent(FAULTS[fk], pad) if pos == "inside" else [" " * pad + "pass"]
        else:
            out.append(l)
    if pos == "after":
        out += FAULTS[fk]
    return helpers, out


def program(kind: str, ctx: str, fault=None) -> str:
    """Source of a module defining `main` (entry for check) using `kind` in `ctx`;
    `fault` = (fault kind, position) or None."""
    src = MOD_PRELUDE
    helpers, body = _body(kind, fault)
    src += helpers
    if ctx == "top":
        lines = body
    elif ctx == "in_if":
        lines = ["if a > 0:"] + indent(body, 4) + ["else:", "    pass"]
    elif ctx == "in_while":
        lines = ["k = 0", "while k < 2:"] + indent(body, 4) + ["    k += 1"]
    elif ctx == "in_for":
        lines = ["for j in range(2):"] + indent(body, 4)
    elif ctx == "dead_after_return":
        lines = ["return a"] + body
    elif ctx == "dead_in_if_after_return":
        lines = ["if a > 0:", "    return a"] + indent(body, 4)
    elif ctx == "dead_in_while_after_break":
        lines = ["while a > 0:", "    break"] + indent(body, 4)
    elif ctx == "in_else":
        lines = ["if a > 0:", "    pass", "else:"] + indent(body, 4)
    elif ctx == "in_nested_fn":
        lines = ["def wrap(a: int) -> int:"] + indent(body, 4) + ["    return a", "w = wrap(a)"]
    elif ctx == "in_nested_fn_under_if":
        lines = ["if a > 0:", "    def wrap(a: int) -> int:"] + indent(body, 8) + \
            ["        return a", "    w = wrap(a)"]
    elif ctx == "in_nested_fn_under_for":
        lines = ["for j in range(2):", "    def wrap(a: int) -> int:"] + indent(body, 8) + \
            ["        return a", "    w = wrap(j)"]
    elif ctx == "in_nested_nested_fn":
        lines = ["def outerw(a: int) -> int:", "    def wrap(a: int) -> int:"] + indent(body, 8) + \
            ["        return a", "    return wrap(a)", "w = outerw(a)"]
    elif ctx in ("in_callee", "in_method", "in_iter_method_unpacked", "in_call_method_probed"):
        lines = None
    else:
        raise ValueError(ctx)
    if ctx == "in_callee":
        src += "@guppy\ndef callee(a: int) -> int:\n" + "\n".join(indent(body, 4)) + "\n    return a\n\n"
        src += "@guppy\ndef main(a: int) -> int:\n    return callee(a)\n"
    elif ctx == "in_iter_method_unpacked":
        src += ("@guppy.struct\nclass SI:\n    f: int\n\n    @guppy\n"
                "    def __iter__(self: \"SI\") -> SizedIter[Range, 2]:\n        a = self.f\n"
                + "\n".join(indent(body, 8)) + "\n        return range(2)\n\n")
        src += "@guppy\ndef main(a: int) -> int:\n    ux, uy = SI(a)\n    return a\n"
    elif ctx == "in_call_method_probed":
        src += ("@guppy.struct\nclass SC:\n    f: int\n\n    @guppy\n"
                "    def __call__(self: \"SC\", a: int) -> int:\n"
                + "\n".join(indent(body, 8)) + "\n        return a + self.f\n\n")
        src += ("@guppy\ndef main(a: int) -> int:\n    g = SC(1)\n    if callable(g):\n"
                "        return g.__call__(a)\n    return a\n")
    elif ctx == "in_method":
        src += ("@guppy.struct\nclass S:\n    f: int\n\n    @guppy\n    def meth(self: \"S\", a: int) -> int:\n"
                + "\n".join(indent(body, 8)) + "\n        return a + self.f\n\n")
        src += "@guppy\ndef main(a: int) -> int:\n    return S(1).meth(a)\n"
    else:
        src += "@guppy\ndef main(a: int) -> int:\n" + "\n".join(indent(lines, 4)) + "\n    return a\n"
    return src


ALL_KINDS = tuple(CONSTRUCTS) + tuple(SIG_CONSTRUCTS)

# (kind, ctx, fault kind, position) combinations that are NOT used, with the reason;
# filled from bin/c33_table.py runs on the unchanged tree (see DESIGN.md, C33).
EXCLUDED: dict[tuple, str] = {}


def usable(kind: str, ctx: str, fault) -> bool:
    if fault is not None and ctx.startswith("dead_"):
        return False      # a second mistake in unreachable code need not be reported
    if fault is None:
        return (kind, ctx, None, None) not in EXCLUDED
    fk, pos = fault
    if pos == "inside" and not has_inside(kind):
        pos = "after"
    return (kind, ctx, fk, pos) not in EXCLUDED and (kind, ctx, fk, "*") not in EXCLUDED \
        and (kind, "*", fk, pos) not in EXCLUDED
