"""C09 - dataflow analyses equal the path-based solution in any visit order.

System under simulation (real code): ForwardAnalysis.run / BackwardAnalysis.run,
LivenessAnalysis, AssignmentAnalysis, CFG.analyze, BB.compute_variable_stats /
VariableVisitor and, in source mode, CFGBuilder.build (reachability marking, pruning).
Schedule seam: the worklist hook; one scheduler step = one pop.
Oracle: an independent path-based reference (plain reachability, no fixpoint iteration).
"""
from __future__ import annotations

import ast
import hashlib

from sim import genv, sched
from sim.choices import Choices, EventLog
from sim.framework import std_run_job

ID = "C09"
LEVEL = "exploration"
CASE_CAP = 20.0
ASSUMPTIONS = [
    "paths run over real and dummy (never-taken) edges, which is what CFG.analyze asks the analyses for (include_unreachable=True)",
    "blocks with no path at all from the entry (only the exit block can be one) are compared for liveness only; assignment sets are defined by 'paths from the entry'",
    "for a borrowed variable the exit counts as a read and the variable is live wherever an infinite write-free path starts (the documented 'live even if the exit is unreachable' case)",
    "when the harness draws maybe_entry strictly larger than def_entry (nested-function call style) the maybe sets are only checked for schedule independence, not against the reference",
    "/repo sources run on newer dependency versions through the 3-point compat shim (verif/compat)",
]
MANIFEST = {
    "level": LEVEL,
    "technique": "deterministic simulation: seeded worklist scheduler (8 policies) over generated and builder-produced CFGs, each analysed under several schedules and compared with a path-based reference model",
    "text": "Seeded search over (CFG, worklist schedule) pairs: generated graphs (2-9 blocks, <=4 variables, dummy edges, unreachable blocks and cycles, borrowed variables) and CFGs built by the real CFGBuilder from generated function bodies; (incl. the CFGs of nested function bodies and modifier blocks, comprehensions whose variables shadow outer names, walrus, with-blocks); every CFG is analysed under K scheduler policies through the guarded hook and live/def/maybe key sets must equal each other and an independent reachability-based reference; for builder-produced CFGs the per-block use/assign sets that feed the reference are derived by an independent statement walker and the real VariableVisitor must agree with them; pops are bounded. Sampling, not proof.",
    "note": "Trusted: the path-based reference (reachability over real+dummy edges, ~80 lines), the graph generator's own use/assign bookkeeping, the independent statement walker that derives use/assign sets for builder-produced CFGs (c09_stats.py, ~100 lines), the scheduler seam, the compat shim.",
    "design_ref": "DESIGN.md section 3 (C09), section 5 (hook)",
}
VARS = ("a", "b", "c", "d")


def warm() -> None:
    genv.warm_imports()
    import guppylang_internals.cfg.cfg  # noqa: F401
    import guppylang_internals.experimental as X
    X.EXPERIMENTAL_FEATURES_ENABLED = True   # mode S uses comprehensions and with-blocks
    from sim.props import c09_source  # noqa: F401


def run_job(job: dict) -> dict:
    return std_run_job(job, run_case, None)


def plan(tier: str, seed: int) -> dict:
    if tier == "quick":
        return {"n_cases": 96000, "cases_per_job": 400, "budget_s": 100, "min_budget": 80,
                "params": {"K": 4, "max_blocks": 9}}
    return {"n_cases": 1500000, "cases_per_job": 500, "budget_s": 1500, "min_budget": 400,
            "params": {"K": 12, "max_blocks": 11}}


# ------------------------------------------------------------------ graph generation (G)
def gen_graph(ch: Choices, params: dict) -> dict:
    nb = ch.rng_int(2, params.get("max_blocks", 9), "n_blocks")
    nv = ch.rng_int(1, 4, "n_vars")
    vs = list(VARS[:nv])
    strict = ch.draw(3, "g1") != 0      # G1: keep the builder's invariant; G2: arbitrary
    blocks = []
    for i in range(nb):
        stmts = []
        if i != 1:  # exit block stays empty
            for _ in range(ch.draw(4, "n_stmts")):
                k = ch.draw(6, "stmt_kind")
                t = ch.pick(vs, "target")
                r1, r2 = ch.pick(vs, "read1"), ch.pick(vs, "read2")
                if k == 0:
                    stmts.append(("assign", [t], []))
                elif k == 1:
                    stmts.append(("assign", [t], [r1]))
                elif k == 2:
                    stmts.append(("assign", [t], [r1, r2]))
                elif k == 3:
                    stmts.append(("aug", [t], [r1]))
                elif k == 4:
                    stmts.append(("tuple", [t, ch.pick(vs, "target2")], [r1, r2]))
                else:
                    stmts.append(("expr", [], [r1]))
        blocks.append({"stmts": stmts, "succ": [], "dsucc": [], "pred": None})
    # real successors
    for i in range(nb):
        if i == 1:
            continue
        targets = [j for j in range(nb) if j != 0]
        n = ch.draw(3, "n_succ")
        succ = []
        for _ in range(n):
            j = ch.pick(targets, "succ")
            if j not in succ:
                succ.append(j)
        blocks[i]["succ"] = succ
        if len(succ) == 2:
            blocks[i]["pred"] = ch.pick(vs, "branch_var")

    def reach(edges) -> set[int]:
        seen, todo = {0}, [0]
        while todo:
            b = todo.pop()
            for j in edges(b):
                if j not in seen:
                    seen.add(j)
                    todo.append(j)
        return seen

    real = reach(lambda b: blocks[b]["succ"])
    if strict:
        for i in range(nb):
            if i not in real:
                blocks[i]["succ"] = [j for j in blocks[i]["succ"] if j not in real]
                if len(blocks[i]["succ"]) < 2:
                    blocks[i]["pred"] = None
    # connect everything (except possibly the exit) over real+dummy edges
    skip_exit = ch.draw(3, "exit_unconnected") == 0
    while True:
        both = reach(lambda b: blocks[b]["succ"] + blocks[b]["dsucc"])
        missing = [i for i in range(nb) if i not in both and not (i == 1 and skip_exit)]
        if not missing:
            break
        tgt = missing[0]
        src = ch.pick(sorted(b for b in both if b != 1), "dummy_src")
        blocks[src]["dsucc"].append(tgt)
    # extra dummy edges
    for _ in range(ch.draw(4, "n_extra_dummy")):
        src = ch.pick([i for i in range(nb) if i != 1], "xd_src")
        tgts = [j for j in range(nb) if j != 0 and (not strict or j not in real)]
        if not tgts:
            continue
        tgt = ch.pick(tgts, "xd_tgt")
        if tgt not in blocks[src]["dsucc"]:
            blocks[src]["dsucc"].append(tgt)
    entry_def = [v for v in vs if ch.draw(3, "entry_def") == 0]
    maybe_extra = [v for v in vs if v not in entry_def and ch.draw(8, "maybe_extra") == 0]
    inout = [v for v in entry_def if ch.draw(3, "inout") == 0]
    return {"mode": "G1" if strict else "G2", "vars": vs, "blocks": blocks,
            "entry_def": entry_def, "maybe_entry": entry_def + maybe_extra, "inout": inout}


def stmt_ast(kind: str, targets: list[str], reads: list[str]) -> ast.stmt:
    rhs = " + ".join(reads) if reads else "0"
    if kind == "assign":
        src = f"{targets[0]} = {rhs}"
    elif kind == "aug":
        src = f"{targets[0]} += {rhs}"
    elif kind == "tuple":
        src = f"{targets[0]}, {targets[1]} = {reads[0]}, {reads[1]}"
    else:
        src = f"{reads[0]}"
    return ast.parse(src).body[0]


def intended_stats(g: dict) -> list[tuple[set, set]]:
    """(used, assigned) per block from the generator's own bookkeeping."""
    out = []
    for b in g["blocks"]:
        used, assigned = set(), set()
        for kind, targets, reads in b["stmts"]:
            seq = list(reads) + (targets if kind == "aug" else [])
            for r in seq:
                if r not in assigned:
                    used.add(r)
            assigned.update(targets)
        if b["pred"] is not None and b["pred"] not in assigned:
            used.add(b["pred"])
        out.append((used, assigned))
    return out


def build_cfg(g: dict):
    from guppylang_internals.cfg.cfg import CFG

    cfg = CFG()
    while len(cfg.bbs) < len(g["blocks"]):
        cfg.new_bb()
    for i, b in enumerate(g["blocks"]):
        bb = cfg.bbs[i]
        bb.statements = [stmt_ast(*s) for s in b["stmts"]]
        for j in b["succ"]:
            cfg.link(bb, cfg.bbs[j])
        for j in b["dsucc"]:
            cfg.dummy_link(bb, cfg.bbs[j])
        if b["pred"] is not None:
            bb.branch_pred = ast.Name(id=b["pred"], ctx=ast.Load())
    cfg.update_reachable()
    return cfg


# ------------------------------------------------------------- path-based reference model
def reference(n: int, succ: list[list[int]], used: list[set], assigned: list[set],
              entry_def: set, maybe_entry: set, inout: list[str], exit_idx: int,
              entry_idx: int = 0):
    """succ = real+dummy successors.  Returns (live, deff, maybe, reachable)."""
    variables = set().union(*used, *assigned, entry_def, maybe_entry, inout)
    preds = [[] for _ in range(n)]
    for i in range(n):
        for j in succ[i]:
            preds[j].append(i)
    used = [set(u) for u in used]
    used[exit_idx] |= set(inout)
    live = [set() for _ in range(n)]
    for x in variables:
        # blocks from which a read of x is reachable through blocks that do not write x
        seeds = [i for i in range(n) if x in used[i]]
        if x in inout:
            # plus: blocks starting an infinite path through blocks not writing x.
            # = blocks that can reach, through non-writing blocks, a cycle of
            # non-writing blocks.  Compute by iteratively deleting non-writing blocks
            # that have no non-writing successor left ("dead ends"); survivors are live.
            alive = {i for i in range(n) if x not in assigned[i]}
            changed = True
            while changed:
                changed = False
                for i in list(alive):
                    if not any(j in alive for j in succ[i]):
                        alive.discard(i)
                        changed = True
            seeds += list(alive)
        seen = set(seeds)
        todo = list(seen)
        while todo:
            b = todo.pop()
            for p in preds[b]:
                # p sees the read iff p does not write x (p's own read-before-write is
                # covered by p being a seed itself)
                if p not in seen and x not in assigned[p]:
                    seen.add(p)
                    todo.append(p)
        for i in seen:
            live[i].add(x)
    reachable = {entry_idx}
    todo = [entry_idx]
    while todo:
        b = todo.pop()
        for j in succ[b]:
            if j not in reachable:
                reachable.add(j)
                todo.append(j)
    all_vars = set().union(*assigned) | set(entry_def)
    deff = [set() for _ in range(n)]
    maybe = [set() for _ in range(n)]
    for x in all_vars | set(maybe_entry):
        # blocks reachable from the entry along paths whose earlier blocks never write x
        unwritten = {entry_idx}
        todo = [entry_idx]
        while todo:
            b = todo.pop()
            if x in assigned[b]:
                continue
            for j in succ[b]:
                if j not in unwritten:
                    unwritten.add(j)
                    todo.append(j)
        # blocks reachable from the entry along a path that passes a writer of x first
        written = set()
        todo = [j for w in reachable if x in assigned[w] for j in succ[w]]
        written.update(todo)
        while todo:
            b = todo.pop()
            for j in succ[b]:
                if j not in written:
                    written.add(j)
                    todo.append(j)
        for i in reachable:
            if x in entry_def or (x in all_vars and i not in unwritten):
                deff[i].add(x)
            if x in entry_def or i in written:
                maybe[i].add(x)
    return live, deff, maybe, reachable


# --------------------------------------------------------------------------- one case
def analyse(cfg, entry_def: set, maybe_entry: set, inout: list[str], sch: sched.Scheduler,
            n_vars: int):
    sched.install(sch)
    # bounded liveness, per analysis run over m blocks: every block value changes at most
    # 2|V| times (lattice height) and a change re-queues at most 2m neighbours
    sch.bound_fn = lambda m: 16 + 4 * m * m * (2 * n_vars + 2)
    try:
        cfg.analyze(set(entry_def), set(maybe_entry), list(inout))
    finally:
        genv.pin_scheduler()
    n = len(cfg.bbs)
    return ([set(cfg.live_before[bb].keys()) for bb in cfg.bbs],
            [set(cfg.ass_before[bb]) for bb in cfg.bbs],
            [set(cfg.maybe_ass_before[bb]) for bb in cfg.bbs])


def fmt(sets: list[set]) -> list[str]:
    return ["".join(sorted(s)) for s in sets]


def run_case(ch: Choices, params: dict) -> dict:
    source_mode = ch.draw(4, "mode") == 0
    log = EventLog()
    viol: list[dict] = []
    probes = {"unreachable_cycle": 0, "borrowed_exit_unreachable": 0, "dummy_edges": 0,
              "requeued>=3": 0, "schedule_differs_from_lowest": 0, "maybe_entry_strict": 0,
              "nested_function": 0, "exit_disconnected": 0, "with_block": 0, "comprehension": 0,
              "nested_cfg_under_test": 0, "comprehension_shadows_outer_name": 0,
              "analysis_with_other_inputs_in_between": 0}
    trace: dict = {}
    if source_mode:
        from sim.props import c09_source
        built = c09_source.build(ch, params)
        if built is None:
            return {"violations": [], "digest": "skip", "steps": 0, "keys": [],
                    "nontrivial_keys": [], "extra": {"source_rejected": 1}}
        cfg, src, entry_def, inout = built
        from sim.props import c09_stats
        # the CFG under test: the function's own, or (drawn) the CFG of one of its nested
        # function bodies / modifier blocks with drawn entry sets
        nested = c09_stats.nested_cfgs(cfg)
        pick = ch.draw(2 * len(nested) + 1, "which_cfg") if nested else 0
        if nested and pick >= len(nested) + 1:
            cfg, nparams = nested[pick - len(nested) - 1]
            outer_vars = sorted(entry_def | set(c09_source.LOCALS))
            entry_def = set(nparams) | {v for v in outer_vars if ch.draw(3, "nested_def") == 0}
            inout = [p_ for p_ in nparams if ch.draw(4, "nested_inout") == 0]
            probes["nested_cfg_under_test"] = 1
        maybe_entry = set(entry_def)
        if nested and ch.draw(4, "nested_maybe") == 0:
            maybe_entry |= {v for v in c09_source.LOCALS if ch.draw(3, "nested_maybe_v") == 0}
        trace["source"] = src
        mode = "S"
        # independent use/assign sets (own walker over the block's statements) feed the
        # reference; the real VariableVisitor must agree with them
        used, assigned = [], []
        for i, bb in enumerate(cfg.bbs):
            u, a = c09_stats.block_stats(bb)
            used.append(u)
            assigned.append(a)
            s = bb.compute_variable_stats()
            if (set(s.used) != u or set(s.assigned) != a) and not viol:
                viol.append({"cls": "C09/BLOCK_STATS", "sig": {"mode": mode},
                             "expected": {"used": sorted(u), "assigned": sorted(a)},
                             "observed": {"used": sorted(s.used), "assigned": sorted(s.assigned)},
                             "detail": {"block": i,
                                        "statements": [ast.dump(st)[:160] for st in bb.statements][:6]}})
        probes["nested_function"] = int(src.count("def ") > 1)
        probes["with_block"] = int("with " in src)
        probes["comprehension"] = int(" in range(" in src and ("[" in src or "array(" in src))
        import re as _re
        probes["comprehension_shadows_outer_name"] = int(any(
            m.group(1) == m.group(2) for m in _re.finditer(r"for (\w+) in range\((\w+)\)", src)))
        # upper bound on variables of any (nested) analysis: all identifiers in the source
        vs_n = len({n.id for n in ast.walk(ast.parse(src)) if isinstance(n, ast.Name)}
                   | {a.arg for a in ast.walk(ast.parse(src)) if isinstance(a, ast.arg)}) + 8
    else:
        g = gen_graph(ch, params)
        mode = g["mode"]
        cfg = build_cfg(g)
        entry_def, maybe_entry, inout = set(g["entry_def"]), set(g["maybe_entry"]), g["inout"]
        st = intended_stats(g)
        used, assigned = [u for u, _ in st], [a for _, a in st]
        trace["cfg"] = {"blocks": [[i, [stmt_src(s) for s in b["stmts"]]
                                    + ([f"branch on {b['pred']}"] if b["pred"] else []),
                                    b["succ"]] for i, b in enumerate(g["blocks"])],
                        "dummy": [[i, j] for i, b in enumerate(g["blocks"]) for j in b["dsucc"]],
                        "entry_def": sorted(entry_def), "maybe_entry": sorted(maybe_entry),
                        "inout": inout, "mode": mode}
        vs_n = len(g["vars"])
        # the real VariableVisitor must agree with the generator's bookkeeping
        for i, bb in enumerate(cfg.bbs):
            s = bb.compute_variable_stats()
            if set(s.used) != used[i] or set(s.assigned) != assigned[i]:
                viol.append({"cls": "C09/BLOCK_STATS", "sig": {"mode": mode},
                             "expected": {"used": sorted(used[i]), "assigned": sorted(assigned[i])},
                             "observed": {"used": sorted(s.used), "assigned": sorted(s.assigned)},
                             "detail": {"block": i}})
    n = len(cfg.bbs)
    idx = {id(bb): i for i, bb in enumerate(cfg.bbs)}
    succ = [[idx[id(s)] for s in bb.successors + bb.dummy_successors] for bb in cfg.bbs]
    n_dummy = sum(len(bb.dummy_successors) for bb in cfg.bbs)
    probes["dummy_edges"] = int(n_dummy > 0)
    exit_idx = idx[id(cfg.exit_bb)]
    entry_idx = idx[id(cfg.entry_bb)]
    live_r, def_r, maybe_r, reachable = reference(
        n, succ, used, assigned, entry_def, maybe_entry, inout, exit_idx, entry_idx)
    strict_maybe = set(maybe_entry) != set(entry_def)
    probes["maybe_entry_strict"] = int(strict_maybe)
    real_reach = {i for i, bb in enumerate(cfg.bbs) if bb.reachable}
    probes["exit_disconnected"] = int(exit_idx not in reachable)
    if inout and exit_idx not in real_reach:
        probes["borrowed_exit_unreachable"] = 1
    # unreachable cycle present?
    for i in range(n):
        if i not in real_reach:
            seen, todo = set(), list(succ[i])
            while todo:
                b = todo.pop()
                if b == i:
                    probes["unreachable_cycle"] = 1
                    break
                if b not in seen and b not in real_reach:
                    seen.add(b)
                    todo.extend(succ[b])
    log.add(mode, n, n_dummy, sorted(entry_def), sorted(maybe_entry), inout,
            [sorted(u) for u in used], [sorted(a) for a in assigned], succ)

    bound = 16 + 4 * n * n * (2 * max(vs_n, 1) + 2)
    K = params.get("K", 4)
    results = []
    schedules = []
    steps = 0
    # The same CFG object is analysed K times.  One call in between may use a different
    # set of borrowed variables: its result must be right for ITS inputs, and it must not
    # leave anything behind for the calls that follow (history of analyses on one CFG).
    detour = ch.draw(K, "detour_at") if inout and K > 2 and ch.draw(3, "detour") == 0 else -1
    for k in range(K):
        pol = "lowest" if k == 0 else ch.pick(sched.POLICIES, "policy")
        sch = sched.Scheduler(pol, ch, starve=ch.draw(n, "starve") if pol == "starve" else 0)
        if k == detour and k > 0:
            sub = [v for v in inout if ch.draw(2, "detour_keep")]
            probes["analysis_with_other_inputs_in_between"] = 1
            try:
                dres = analyse(cfg, entry_def, maybe_entry, sub, sch, max(vs_n, 1))
                dlive, _dd, _dm, _dr = reference(n, succ, used, assigned, entry_def, maybe_entry,
                                                 sub, exit_idx, entry_idx)
                bad = next((i for i in range(n) if dres[0][i] != dlive[i]), None)
                if bad is not None:
                    viol.append({"cls": "C09/LIVE_" + ("MISSING" if dlive[bad] - dres[0][bad] else "EXTRA"),
                                 "sig": {"mode": mode, "dummy": n_dummy > 0},
                                 "expected": {f"live_before[{bad}] (inout={sub})": sorted(dlive[bad])},
                                 "observed": {f"live_before[{bad}]": sorted(dres[0][bad])},
                                 "detail": {"schedule": {"policy": pol, "pops": sch.pops},
                                            "analysis": "in-between call with other borrowed variables"}})
            except sched.NoConvergence:
                pass
            sch = sched.Scheduler(pol, ch, starve=0)
        try:
            res = analyse(cfg, entry_def, maybe_entry, inout, sch, max(vs_n, 1))
        except sched.NoConvergence:
            viol.append({"cls": "C09/NO_CONVERGENCE", "sig": {"mode": mode, "dummy": n_dummy > 0},
                         "expected": f"<= {bound} pops", "observed": "bound exceeded",
                         "detail": {"policy": pol, "pops": sch.pops}})
            log.add("noconv", pol)
            continue
        results.append(res)
        schedules.append({"policy": pol, "pops": sch.pops})
        steps += sum(len(p) for p in sch.pops)
        for seq in sch.pops:
            if seq and max(seq.count(i) for i in set(seq)) >= 3:
                probes["requeued>=3"] = 1
        log.add(pol, fmt(res[0]), fmt(res[1]), fmt(res[2]))
        if k > 0 and results and res != results[0]:
            probes["schedule_differs_from_lowest"] = 1
    trace["schedules"] = schedules
    names = ("live_before", "ass_before", "maybe_ass_before")
    refs = (live_r, def_r, maybe_r)
    sig = {"mode": mode, "dummy": n_dummy > 0}
    for k, res in enumerate(results):
        for which in range(3):
            if which == 2 and strict_maybe:
                continue
            for i in range(n):
                if which > 0 and i not in reachable:
                    continue
                got, want = res[which][i], refs[which][i]
                if got != want:
                    kind = ("LIVE", "DEF", "MAYBE")[which]
                    cls = f"C09/{kind}_{'MISSING' if want - got else 'EXTRA'}"
                    viol.append({"cls": cls, "sig": sig,
                                 "expected": {f"{names[which]}[{i}]": sorted(want)},
                                 "observed": {f"{names[which]}[{i}]": sorted(got)},
                                 "detail": {"schedule": schedules[k]}})
                    break
            else:
                continue
            break
    for k in range(1, len(results)):
        if results[k] != results[0]:
            which = next(w for w in range(3) if results[k][w] != results[0][w])
            i = next(i for i in range(n) if results[k][which][i] != results[0][which][i])
            viol.append({"cls": "C09/ORDER_DEPENDENT", "sig": sig,
                         "expected": {f"{names[which]}[{i}] under {schedules[0]['policy']}":
                                      sorted(results[0][which][i])},
                         "observed": {f"{names[which]}[{i}] under {schedules[k]['policy']}":
                                      sorted(results[k][which][i])},
                         "detail": {"schedule_A": schedules[0], "schedule_B": schedules[k]}})
            break
    # distinct-state measure: the CFG shape (+ sets) ; interleavings: distinct pop sequences
    shape = hashlib.sha256(repr((mode == "S", succ, [sorted(u) for u in used],
                                 [sorted(a) for a in assigned], sorted(entry_def),
                                 inout)).encode()).hexdigest()[:16]
    inter = {hashlib.sha256(repr(s["pops"]).encode()).hexdigest()[:12] for s in schedules}
    nontrivial = n >= 4 and (n_dummy > 0 or any(len(s) == 2 for s in succ)) and \
        any(assigned) and any(used)
    res = {"violations": viol, "digest": log.digest(), "steps": steps,
           "faults": {}, "probes": probes,
           "keys": [shape], "nontrivial_keys": [shape] if nontrivial else [],
           "extra": {"analyses_run": len(results) * 2, "distinct_schedules": len(inter),
                     "mode_" + mode: 1},
           "trace": trace}
    if viol or (nontrivial and ch.record[1 % len(ch.record)] == 7 and ch.record[-1] % 5 == 0):
        res["sample"] = {k: v for k, v in trace.items()}
        res["sample"]["reference"] = {"live": fmt(live_r), "def": fmt(def_r),
                                      "maybe": fmt(maybe_r)}
    return res


def stmt_src(s) -> str:
    return ast.unparse(stmt_ast(*s))


def coverage(agg, plan: dict) -> dict:
    return {
        "distinct_nontrivial": len(agg.nontrivial_keys),
        "distinct_cfgs": len(agg.keys),
        "analyses_run": agg.extra.get("analyses_run", 0),
        "distinct_schedules_summed_per_cfg": agg.extra.get("distinct_schedules", 0),
        "by_mode": {k[5:]: v for k, v in agg.extra.items() if k.startswith("mode_")},
        "source_programs_rejected_by_builder": agg.extra.get("source_rejected", 0),
        "rule": "one case = one CFG (generated graph G1/G2, or built by the real CFGBuilder from a generated function body, S) analysed under K scheduler policies; distinct = sha256 of (edges, per-block use/assign sets, entry sets, borrowed vars); non-trivial = >= 4 blocks, a branch or a dummy edge, at least one assignment and one use; steps = worklist pops",
        "components_real": ["cfg/analysis.py (both run loops, LivenessAnalysis, AssignmentAnalysis)",
                            "cfg/cfg.py CFG.analyze/new_bb/link/dummy_link/update_reachable",
                            "cfg/bb.py compute_variable_stats / VariableVisitor",
                            "cfg/builder.py CFGBuilder (mode S)"],
        "components_stub": ["worklist container replaced through the guarded hook by the seeded scheduler",
                            "compat shim (3 patch points)"],
    }
