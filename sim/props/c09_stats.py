"""Independent re-derivation of the per-block use/assign sets for CFGs built from source.

Mode S of C09 used to take these sets from the real `VariableVisitor`, so a defect in the
visitor fed both the analyses and the reference and stayed invisible.  This module
computes, from the statements of a block alone and with its own walker:

  assigned(B) = names bound by a statement of B (function names included)
  used(B)     = names read in B before B binds them ("read" follows Python's evaluation
                order: right-hand side before targets; an augmented assignment reads its
                target; subscript / attribute targets read their base; a comprehension
                reads, in the enclosing scope, every name it evaluates before one of its
                own generators binds it; a nested function / modifier block reads the
                variables that are live at the entry of its body, computed with the
                path-based reference over its own CFG, minus its parameters and name)

`comptime(...)` expressions are not looked into (they are evaluated by Python, not Guppy).
"""
from __future__ import annotations

import ast


class RefStats:
    def __init__(self) -> None:
        self.used: set[str] = set()
        self.assigned: set[str] = set()

    # ---- reads
    def read(self, name: str) -> None:
        if name not in self.assigned:
            self.used.add(name)

    def expr(self, node) -> None:
        if node is None:
            return
        cls = type(node).__name__
        if cls == "ComptimeExpr":
            return
        if cls in ("DesugaredListComp", "DesugaredGeneratorExpr"):
            self.comprehension(node.generators, node.elt)
            return
        if cls == "DesugaredArrayComp":
            self.comprehension([node.generator], node.elt)
            return
        if isinstance(node, ast.Name):
            self.read(node.id)
            return
        for child in ast.iter_child_nodes(node):
            self.expr(child)

    def comprehension(self, generators, elt) -> None:
        inner = RefStats()            # names bound by the comprehension are local to it
        for gen in generators:
            inner.stmt(gen.iter_assign)
            inner.expr(gen.next_call)
            inner.target(gen.target)
            for cond in gen.ifs:
                inner.expr(cond)
        inner.expr(elt)
        for x in inner.used:          # evaluated before the comprehension bound them
            self.read(x)

    # ---- binders
    def target(self, lhs) -> None:
        if isinstance(lhs, ast.Name):
            self.assigned.add(lhs.id)
        elif isinstance(lhs, ast.Tuple | ast.List):
            for e in lhs.elts:
                self.target(e)
        elif isinstance(lhs, ast.Attribute):
            self.expr(lhs.value)
        elif isinstance(lhs, ast.Subscript):
            self.expr(lhs.slice)
            self.expr(lhs.value)
        elif isinstance(lhs, ast.Starred):
            self.target(lhs.value)

    def stmt(self, node) -> None:
        cls = type(node).__name__
        if isinstance(node, ast.Assign):
            self.expr(node.value)
            for t in node.targets:
                self.target(t)
        elif isinstance(node, ast.AugAssign):
            self.expr(node.value)
            self.expr(node.target)
            self.target(node.target)
        elif isinstance(node, ast.AnnAssign):
            self.expr(node.value)
            self.target(node.target)
        elif isinstance(node, ast.Expr | ast.Return):
            self.expr(node.value)
        elif cls == "NestedFunctionDef":
            bound = {node.name} | {a.arg for a in node.args.args}
            for x in entry_live(node.cfg):
                if x not in bound:
                    self.read(x)
            self.assigned.add(node.name)
        elif cls == "ModifiedBlock":
            for e in list(node.control) + list(node.power):
                self.expr(e)
            for x in entry_live(node.cfg):
                self.read(x)
        else:
            self.expr(node)           # a bare expression (branch predicate)


def block_stats(bb) -> tuple[set[str], set[str]]:
    st = RefStats()
    for s in bb.statements:
        st.stmt(s)
    if bb.branch_pred is not None:
        st.expr(bb.branch_pred)
    return st.used, st.assigned


def entry_live(cfg) -> set[str]:
    """Variables live at the entry of a nested body: read on some path from the entry
    (real edges; this is what the enclosing block needs to provide) before being written."""
    from sim.props.c09 import reference
    bbs = list(cfg.bbs)
    idx = {id(b): i for i, b in enumerate(bbs)}
    st = [block_stats(b) for b in bbs]
    succ = [[idx[id(s)] for s in b.successors] for b in bbs]
    live, _d, _m, _r = reference(len(bbs), succ, [u for u, _ in st], [a for _, a in st],
                                 set(), set(), [], idx[id(cfg.exit_bb)], idx[id(cfg.entry_bb)])
    return live[idx[id(cfg.entry_bb)]]


def nested_cfgs(cfg) -> list:
    """All CFGs of nested function bodies and modifier blocks below `cfg` (recursively),
    each with the parameter names of its function (empty for modifier blocks)."""
    out = []
    for bb in cfg.bbs:
        for s in bb.statements:
            cls = type(s).__name__
            if cls in ("NestedFunctionDef", "ModifiedBlock"):
                params = [a.arg for a in s.args.args] if cls == "NestedFunctionDef" else []
                out.append((s.cfg, params))
                out += nested_cfgs(s.cfg)
    return out
