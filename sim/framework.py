"""Generic driver: plan -> run cases in forked children -> aggregate -> minimise ->
replay file -> known-findings filter -> evidence -> exit code.

Exit codes: 0 held on everything explored (KNOWN-FINDING lines allowed), 1 at least one
unlisted violation (one VIOLATION line each), 2 harness error.
"""
from __future__ import annotations

import hashlib
import importlib
import json
import os
import subprocess
import sys
import time

from sim.choices import Choices, mix
from sim.pool import HarnessError, Pool, REPO, VERIF, base_env, disable_aslr

EVIDENCE_DIR = os.path.join(VERIF, "evidence")
REPLAY_DIR = os.path.join(VERIF, "replays")
KNOWN = os.path.join(VERIF, "known_findings.json")


# --------------------------------------------------------------------------- child side
def std_run_job(job: dict, run_case, reset_case=None) -> dict:
    """Child-side helper: runs the cases of a job through `run_case(ch, params)`.

    A job is either a batch of (index, seed) cases run one after the other in this child
    (with `reset_case()` between them), optionally ending in a recorded choice list
    (replay of one case, possibly after a prefix of earlier cases of its batch)."""
    out = []
    params = job.get("params", {})
    for idx, seed in job.get("cases", []):
        if reset_case is not None:
            reset_case()
        ch = Choices(seed=seed)
        res = run_case(ch, dict(params, _index=idx))
        res["index"], res["seed"] = idx, seed
        if res.get("violations") or job.get("want_choices"):
            res["choices"] = ch.record
        else:
            res.pop("trace", None)
        out.append(res)
    if job.get("mode") == "replay":
        if reset_case is not None:
            reset_case()
        ch = Choices(replay=job["choices"])
        res = run_case(ch, dict(params, _index=job.get("index", -1)))
        res["index"], res["seed"], res["choices"] = job.get("index", -1), None, ch.record
        out = [res]  # only the replayed case is reported
    return {"cases": out}


# -------------------------------------------------------------------------- driver side
def repo_fingerprint() -> str:
    try:
        rev = subprocess.run(["git", "-C", REPO, "rev-parse", "--short", "HEAD"],
                             capture_output=True, text=True).stdout.strip()
        diff = subprocess.run(["git", "-C", REPO, "diff", "HEAD"],
                              capture_output=True).stdout
        return rev + ("+" + hashlib.sha256(diff).hexdigest()[:10] if diff else "")
    except Exception:  # noqa: BLE001
        return "unknown"


def load_known(pid: str) -> list[dict]:
    if not os.path.exists(KNOWN):
        return []
    return [f for f in json.load(open(KNOWN)) if f.get("property") == pid]


def known_match(finding: dict, viol: dict) -> bool:
    if finding.get("status") != "open":
        return False
    m = finding.get("match", {})
    if m.get("class") and m["class"] != viol.get("cls"):
        return False
    sig = viol.get("sig", {})
    return all(sig.get(k) == v for k, v in m.items() if k != "class")


class Agg:
    """Aggregates case results into evidence counters."""

    def __init__(self) -> None:
        self.cases = 0
        self.steps = 0
        self.faults: dict[str, int] = {}
        self.probes: dict[str, int] = {}
        self.keys: set[str] = set()
        self.nontrivial_keys: set[str] = set()
        self.samples: list = []
        self.violating: list[dict] = []
        self.digests: dict[int, str] = {}
        self.extra: dict[str, int] = {}
        self.sets: dict[str, set] = {}     # named sets, united over cases (distinct counts)

    def add(self, res: dict) -> None:
        self.cases += 1
        self.steps += res.get("steps", 0)
        for k, v in res.get("faults", {}).items():
            self.faults[k] = self.faults.get(k, 0) + v
        for k, v in res.get("probes", {}).items():
            self.probes[k] = self.probes.get(k, 0) + v
        for k, v in res.get("extra", {}).items():
            self.extra[k] = self.extra.get(k, 0) + v
        for name, vals in res.get("sets", {}).items():
            self.sets.setdefault(name, set()).update(vals)
        for k in res.get("keys", []):
            self.keys.add(k)
        for k in res.get("nontrivial_keys", []):
            self.nontrivial_keys.add(k)
        if res.get("sample") is not None and len(self.samples) < 4:
            self.samples.append(res["sample"])
        if "digest" in res:
            self.digests[res["index"]] = res["digest"]
        if res.get("violations"):
            self.violating.append(res)


def n_workers() -> int:
    return int(os.environ.get("VERIF_WORKERS", "0")) or min(16, os.cpu_count() or 1)


def run_jobs_with_retry(pool: Pool, jobs: list[dict], cap: float):
    """Yields (job, result); a job that hit a harness error is retried once with a
    longer cap on a (possibly fresh) zygote.  A second failure is final."""
    failed = []
    for job, res in pool.run(jobs, default_cap=cap):
        if "harness_error" in res:
            failed.append(job)
        else:
            yield job, res
    if failed:
        for j in failed:
            j["cap"] = cap * 3
            j["retried"] = True
        for job, res in pool.run(failed, default_cap=cap * 3):
            yield job, res


def _norm(rec: list[int]) -> list[int]:
    rec = list(rec)
    while rec and rec[-1] == 0:
        rec.pop()
    return rec


def minimise(pool: Pool, prop, params: dict, choices: list[int], cls: str,
             budget: int, flavour: str = "default",
             prefix: list | None = None, index: int = -1) -> tuple[list[int], dict | None, int]:
    """Shrinks a failing choice list while a violation of the same class persists.
    Candidates run in fresh children; a candidate is accepted only if the choices it
    actually consumed are strictly smaller in (length, lexicographic) order, so the loop
    terminates.  Returns (choices, failing case result for them, reruns used)."""
    used = 0
    best = _norm(choices)
    best_res = None

    def test(cands: list[list[int]], must_shrink: bool = True):
        nonlocal used, best, best_res
        cands = cands[: max(0, budget - used)]
        if not cands:
            return False
        jobs = [{"mode": "replay", "choices": c, "params": params, "flavour": flavour,
                 "cand": i, "cases": prefix or [], "index": index} for i, c in enumerate(cands)]
        used += len(jobs)
        hits = []
        for job, res in pool.run(jobs, default_cap=prop.CASE_CAP * (2 + len(prefix or []))):
            if "harness_error" in res:
                continue
            case = res["cases"][0]
            if any(v["cls"] == cls for v in case.get("violations", [])):
                rec = _norm(case["choices"])
                if not must_shrink or (len(rec), rec) < (len(best), best):
                    hits.append(((len(rec), rec), job["cand"], case))
        if not hits:
            return False
        hits.sort(key=lambda h: (h[0], h[1]))
        best, best_res = hits[0][0][1], hits[0][2]
        return True

    if not test([best], must_shrink=False):
        return best, None, used
    progress = True
    while progress and used < budget:
        progress = False
        n = len(best)
        if test([best[:k] for k in sorted({n // 8, n // 4, n // 2, (3 * n) // 4, n - 1})
                 if 0 <= k < n]):
            progress = True
        for size in (8, 4, 2, 1):
            i = 0
            while i < len(best) and used < budget:
                cands = []
                j = i
                while j < len(best) and len(cands) < pool.workers:
                    cands.append(best[:j] + best[j + size:])
                    j += size
                if test(cands):
                    progress = True  # retry from the same position on the shorter list
                else:
                    i = j
        for f in (lambda v: 0, lambda v: v // 2, lambda v: v - 1):
            i = 0
            while i < len(best) and used < budget:
                cands = []
                j = i
                while j < len(best) and len(cands) < pool.workers:
                    if best[j] > 0:
                        c = list(best)
                        c[j] = f(best[j])
                        cands.append(c)
                    j += 1
                if cands and test(cands):
                    progress = True
                i = j
    return best, best_res, used


def write_replay(prop, pid: str, seed: int, case: dict, min_choices: list[int],
                 min_case: dict | None, params: dict, env_info: dict,
                 orig_len: int, prefix: list | None = None) -> str:
    os.makedirs(REPLAY_DIR, exist_ok=True)
    v = (min_case or case)["violations"][0]
    path = os.path.join(REPLAY_DIR, f"{pid}-{seed}-{case['index']}.json")
    doc = {
        "property": pid, "class": v["cls"], "verif_seed": seed, "run": case["index"],
        "run_seed": case.get("seed"), "env": env_info, "params": params,
        "choices": min_choices, "minimised_from_choices": orig_len,
        "prefix_cases": prefix or [],
        "trace": (min_case or case).get("trace"),
        "expected": v.get("expected"), "observed": v.get("observed"),
        "detail": v.get("detail"), "sig": v.get("sig"),
        "repo_tree": repo_fingerprint(),
    }
    json.dump(doc, open(path, "w"), indent=1, default=str)
    return path


def write_evidence(pid: str, tier: str, seed: int, level: str, coverage: dict,
                   assumptions: list[str], wall: float, violations: int) -> None:
    if os.environ.get("VERIF_NO_EVIDENCE"):   # sensitivity runs against scratch trees
        return
    os.makedirs(EVIDENCE_DIR, exist_ok=True)
    doc = {"property_id": pid, "tier": tier, "seed": seed, "level": level,
           "coverage": coverage, "assumptions": assumptions,
           "wall_s": round(wall, 2), "violations": violations}
    tmp = os.path.join(EVIDENCE_DIR, f".{pid}.json.tmp")
    json.dump(doc, open(tmp, "w"), indent=1, default=str)
    os.replace(tmp, os.path.join(EVIDENCE_DIR, f"{pid}.json"))


def plan_phases(plan: dict) -> list[dict]:
    """A plan is one phase, or several (`phases`: name, n_cases, cases_per_job, params);
    the case indices of phase k start at k * 10**6, so run seeds and replay names stay
    unique and the parameters of a case follow from its index."""
    phases = plan.get("phases") or [{"name": "main", "n_cases": plan["n_cases"],
                                     "cases_per_job": plan["cases_per_job"],
                                     "params": plan.get("params", {})}]
    phases = [dict(ph, offset=k * 10 ** 6) for k, ph in enumerate(phases)]
    only = os.environ.get("VERIF_ONLY_PHASE")     # development aid: one phase of a check
    return [ph for ph in phases if ph["name"] == only] or phases if only else phases


def phase_of(phases: list[dict], index: int) -> dict:
    return next(ph for ph in reversed(phases) if index >= ph["offset"])


def phase_jobs(phases: list[dict], seed: int, pid: str, limit: int | None = None) -> list[dict]:
    """Jobs of all phases, interleaved in proportion, so that a wall budget that stops
    exploration early still covers every phase; phases marked `first` (small exhaustive
    parts) are dispatched before everything else and are never cut by the budget."""
    keyed = []
    for k, ph in enumerate(phases):
        n, per, off = ph["n_cases"], ph["cases_per_job"], ph["offset"]
        if limit is not None:
            n = min(n, limit)
        starts = list(range(0, n, per))
        for j, start in enumerate(starts):
            cases = [[off + i, mix(seed, pid, off + i)] for i in range(start, min(n, start + per))]
            keyed.append((-1.0 if ph.get("first") else (j + 0.5) / len(starts), k,
                          {"mode": "cases", "cases": cases, "params": ph["params"],
                           "phase": ph["name"], "first": bool(ph.get("first"))}))
    keyed.sort(key=lambda t: (t[0], t[1]))
    return [j for _, _, j in keyed]


def generic_main(prop, tier: str, seed: int) -> int:
    """Runs a standard (single observation per case) property."""
    pid = prop.ID
    t0 = time.monotonic()
    aslr_off = disable_aslr()
    plan = prop.plan(tier, seed)
    budget_s = float(os.environ.get("VERIF_BUDGET_S", plan.get("budget_s", 150)))
    params = plan.get("params", {})
    flavours = plan.get("flavours") or {"default": base_env()}
    pool = Pool(prop.__name__, flavours, n_workers())
    agg = Agg()
    harness_fail: list[str] = []
    retried = 0
    try:
        phases = plan_phases(plan)
        jobs = phase_jobs(phases, seed, pid)
        per = max(ph["cases_per_job"] for ph in phases)
        # dispatch in slices so that the wall budget can stop exploration early
        slice_n = plan.get("slice") or max(pool.workers * 2, 1)
        done_jobs = 0
        n_first = sum(1 for j in jobs if j.get("first"))
        for s in range(0, len(jobs), slice_n):
            if time.monotonic() - t0 > budget_s and done_jobs > 0 and s >= n_first:
                break
            for job, res in run_jobs_with_retry(pool, jobs[s:s + slice_n], prop.CASE_CAP * per):
                done_jobs += 1
                if job.get("retried"):
                    retried += 1
                if "harness_error" in res:
                    harness_fail.append(res["harness_error"])
                    continue
                for case in res["cases"]:
                    agg.add(case)
                    agg.extra["cases_phase_" + job.get("phase", "main")] = \
                        agg.extra.get("cases_phase_" + job.get("phase", "main"), 0) + 1
        explore_wall = time.monotonic() - t0

        # ---- violations: minimise, write replay, filter known findings
        known = load_known(pid)
        reported, known_hits, nonrepro = [], {}, []
        agg.violating.sort(key=lambda c: c["index"])
        min_budget = plan.get("min_budget", 60)
        groups: dict[str, list[dict]] = {}
        for case in agg.violating:
            v0 = case["violations"][0]
            groups.setdefault(json.dumps([v0["cls"], v0.get("sig")], sort_keys=True),
                              []).append(case)
        for gi, (sigkey, cases) in enumerate(groups.items()):
            case = cases[0]
            v0 = case["violations"][0]
            # confirm in a fresh child: alone first, else after the earlier cases of
            # its batch (cross-case state is then part of the replayed history)
            ph = phase_of(phases, case["index"])
            per, off, params = ph["cases_per_job"], ph["offset"], ph["params"]
            start = off + ((case["index"] - off) // per) * per
            prefix_full = [[i, mix(seed, pid, i)] for i in range(start, case["index"])]
            prefix, mc, mres, used = None, case["choices"], None, 0
            for cand_prefix in ([], prefix_full) if prefix_full else ([],):
                mc, mres, used = minimise(pool, prop, params, case["choices"], v0["cls"],
                                          min_budget if gi < 6 else 1, prefix=cand_prefix,
                                          index=case["index"])
                if mres is not None:
                    prefix = cand_prefix
                    break
            if mres is None:
                nonrepro.append(f"run {case['index']} class {v0['cls']}")
                continue
            vmin = next((vv for vv in (mres or case)["violations"] if vv["cls"] == v0["cls"]),
                        v0)
            f = next((f for f in known if known_match(f, vmin) and known_match(f, v0)), None)
            if f is not None:
                known_hits[f["key"]] = f
                continue
            dup = next((r for r in reported if r["cls"] == v0["cls"] and r["mc"] == mc), None)
            if dup is not None:   # minimised to a replay that is already reported
                dup["also"] += [c["index"] for c in cases]
                continue
            path = write_replay(prop, pid, seed, case, mc, mres, params,
                                {"PYTHONHASHSEED": "0", "aslr": "off" if aslr_off else "on",
                                 "hook": "on"}, len(case["choices"]), prefix)
            reported.append({"path": path, "cls": v0["cls"], "index": case["index"], "mc": mc,
                             "also": [c["index"] for c in cases[1:]], "min_reruns": used})
    except HarnessError as e:
        harness_fail.append(str(e))
        reported, known_hits, nonrepro, explore_wall = [], {}, [], time.monotonic() - t0
    finally:
        pool.close()
        if hasattr(prop, "cleanup"):
            prop.cleanup(plan)

    wall = time.monotonic() - t0
    for f in known_hits.values():
        print(f"KNOWN-FINDING: property={pid} {f['key']}: {f['description']}")
    for r in reported:
        print(f"VIOLATION property={pid} replay={r['path']}")
        print(f"  class={r['cls']} first_run={r['index']} other_runs={r['also'][:10]}")
    cov = prop.coverage(agg, plan)
    per_hour = 3600.0 / max(explore_wall, 1e-6)
    cov.update({
        # a property whose case enumerates many executions (C23: fault plans) reports those
        "evaluations": cov.get("evaluations_measured", agg.cases),
        "cases": agg.cases,
        "distinct_counts": {k: len(v) for k, v in sorted(agg.sets.items())},
        "cases_per_phase": {k[len("cases_phase_"):]: v for k, v in sorted(agg.extra.items())
                            if k.startswith("cases_phase_")},
        "runs_per_hour": int(agg.cases * per_hour),
        "seeds_per_hour": int(agg.cases * per_hour),
        "simulated_time": {"unit": "logical steps (no clock in the anchored code)",
                           "steps": agg.steps},
        "faults_fired": agg.faults,
        "probes": agg.probes,
        "samples": agg.samples or [{"note": "no sample recorded"}],
        "workers": pool.workers, "aslr_off": aslr_off,
        "harness_errors": len(harness_fail), "harness_retries": retried,
        "known_findings_hit": sorted(known_hits),
        "repo_tree": repo_fingerprint(),
        "verif_seed": seed,
    })
    write_evidence(pid, tier, seed, prop.LEVEL, cov, prop.ASSUMPTIONS, wall, len(reported))
    if nonrepro:
        harness_fail.append("violation(s) seen during exploration did not reproduce in a "
                            "fresh child (harness nondeterminism): " + "; ".join(nonrepro[:5]))
    if harness_fail:
        print(f"HARNESS-ERROR property={pid}: {len(harness_fail)} job(s) failed; first:\n"
              + harness_fail[0][-2000:], file=sys.stderr)
        return 1 if reported else 2
    print(f"{pid} {tier}: {agg.cases} runs, {agg.steps} steps, "
          f"{len(agg.nontrivial_keys)} distinct non-trivial, violations={len(reported)}, "
          f"{wall:.1f}s")
    return 1 if reported else 0


def generic_replay(prop, path: str) -> int:
    doc = json.load(open(path))
    disable_aslr()
    env = base_env(hashseed=doc.get("env", {}).get("PYTHONHASHSEED", "0"))
    pool = Pool(prop.__name__, {"default": env}, 1)
    try:
        out = None
        for _, res in pool.run([{"mode": "replay", "choices": doc["choices"],
                                 "cases": doc.get("prefix_cases", []),
                                 "index": doc.get("run", -1),
                                 "params": doc.get("params", {})}],
                               default_cap=prop.CASE_CAP * 3):
            out = res
    finally:
        pool.close()
    if out is None or "harness_error" in out:
        print("HARNESS-ERROR during replay:", (out or {}).get("harness_error"), file=sys.stderr)
        return 2
    case = out["cases"][0]
    classes = [v["cls"] for v in case.get("violations", [])]
    if doc["class"] in classes:
        print(f"VIOLATION property={doc['property']} replay={path}")
        v = next(v for v in case["violations"] if v["cls"] == doc["class"])
        print(json.dumps({"class": v["cls"], "expected": v.get("expected"),
                          "observed": v.get("observed"), "detail": v.get("detail")},
                         indent=1, default=str))
        return 1
    print(f"replay of {path}: violation class {doc['class']} not reproduced "
          f"(observed classes: {classes})")
    return 0


def selftest_determinism(prop, seed: int, n: int) -> int:
    """Runs the first n cases twice at different worker counts and (where the property
    pins it) under a second hash seed, and compares per-case event-log digests."""
    disable_aslr()
    plan = prop.plan("quick", seed)
    phases = plan_phases(plan)
    per = max(ph["cases_per_job"] for ph in phases)
    configs = [("w16-h0", n_workers(), "0"), ("w3-h0", 3, "0")]
    if getattr(prop, "HASHSEED_INDEPENDENT", True):
        configs.append(("w16-h7", n_workers(), "7"))
    digests: dict[str, dict[int, str]] = {}
    for name, workers, hs in configs:
        env = dict((plan.get("flavours") or {}).get("default") or base_env())
        env["PYTHONHASHSEED"] = hs
        pool = Pool(prop.__name__, {"default": env}, workers)
        try:
            jobs = phase_jobs(phases, seed, prop.ID, limit=n)
            d = {}
            for _, res in pool.run(jobs, default_cap=prop.CASE_CAP * per):
                if "harness_error" in res:
                    print("HARNESS-ERROR:", res["harness_error"][-800:], file=sys.stderr)
                    return 2
                for c in res["cases"]:
                    d[c["index"]] = c["digest"]
            digests[name] = d
        finally:
            pool.close()
    if hasattr(prop, "cleanup"):
        prop.cleanup(plan)
    ref = digests[configs[0][0]]
    bad = 0
    for name, d in digests.items():
        diff = [i for i in ref if d.get(i) != ref[i]]
        print(f"selftest {prop.ID}: config {name}: {len(d)} runs, {len(diff)} digests differ"
              + (f" (first: run {diff[0]})" if diff else ""))
        bad += len(diff)
    return 1 if bad else 0
