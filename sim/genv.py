"""Helpers shared by the property modules: synthetic user modules, outcome capture,
pinned scheduler.  Runs inside zygotes / their children only."""
from __future__ import annotations

import hashlib
import linecache
import sys
import types

from sim import sched as _sched

_counter = 0


def warm_imports() -> None:
    """Import (never compile) everything a run may need, so that forks are cheap."""
    import guppylang  # noqa: F401
    import guppylang.std.builtins  # noqa: F401
    import guppylang.std.quantum  # noqa: F401
    import guppylang.std.angles  # noqa: F401
    import guppylang.std.option  # noqa: F401
    import guppylang.std.either  # noqa: F401
    import guppylang_internals.cfg.builder  # noqa: F401
    import guppylang_internals.checker.func_checker  # noqa: F401
    import guppylang_internals.compiler.core  # noqa: F401
    import guppylang_internals.tracing.function  # noqa: F401
    import guppylang_internals.diagnostic  # noqa: F401
    pin_scheduler()


WARM_SRC = """
@guppy.struct
class WarmS:
    a: int
    b: float

@guppy
def warm_helper(x: int, t: tuple[int, bool]) -> int:
    return x + 1

@guppy
def warm_main() -> None:
    s = WarmS(1, 2.5)
    acc = 0
    for i in range(3):
        acc += warm_helper(i, (i, True)) * 2
    while acc > 0 and not (acc == 7):
        acc -= 1
    xs = array(1, 2, 3)
    y = xs[0] if acc < 3 else int(s.b)
    q = qubit()
    h(q)
    q2 = qubit()
    cx(q, q2)
    b = measure(q)
    discard(q2)
    def nested(p: int) -> int:
        return p + 1
    z = nested(y)
"""


def warm_compile() -> None:
    """One throw-away compile in the warm parent, followed by ENGINE.reset(): fills the
    process-level caches (linecache, lazily imported modules, functools caches) so that
    every forked run does not pay for them again.  All runs and all fresh-session
    references still start from one and the same state."""
    from guppylang_internals.engine import ENGINE
    m = make_module("verif_warm", WARM_SRC)
    m.warm_main.compile()
    ENGINE.reset()


def pin_scheduler(policy: str = "lowest") -> _sched.Scheduler:
    s = _sched.Scheduler(policy)
    _sched.install(s)
    return s


PRELUDE = """\
from guppylang import guppy, qubit, comptime
from guppylang.std.builtins import array, owned, result, nat, py
from guppylang.std.quantum import h, x, cx, measure, discard
from guppylang.std.builtins import int as gint, float as gfloat
from guppylang.std.option import Option, nothing, some
from guppylang.std.either import Either, left, right
from guppylang.std.lang import Copy, Drop
from guppylang_internals.decorator import hugr_op
from hugr import ext as _he, ops as _hops, tys as _ht
from hugr.std.int import int_t as _int_t
from collections.abc import Callable
"""


def make_module(name: str, source: str, prelude: bool = True,
                register_source: bool = True, filename: str | None = None) -> types.ModuleType:
    """Executes `source` as the body of a synthetic module whose source text is
    retrievable through linecache (so `inspect.getsourcelines` works) and whose
    module-level frame has `f_locals is module.__dict__`."""
    global _counter
    _counter += 1
    if prelude:
        source = PRELUDE + source
    filename = filename or f"<verif:{name}:{_counter}>"     # an existing name = edited in place
    lines = source.splitlines(True)
    if register_source:     # otherwise: definitions whose source cannot be retrieved
        linecache.cache[filename] = (len(source), None, lines, filename)
    mod = types.ModuleType(name)
    mod.__file__ = filename
    sys.modules[name] = mod
    exec(compile(source, filename, "exec"), mod.__dict__)
    return mod


def render(err) -> str:
    from guppylang_internals.diagnostic import DiagnosticsRenderer
    from guppylang_internals.engine import DEF_STORE

    r = DiagnosticsRenderer(DEF_STORE.sources)
    r.render_diagnostic(err.error)
    return "\n".join(r.buffer)


def outcome(thunk, want_bytes: bool = False) -> dict:
    """Runs a check/compile thunk and classifies what happened."""
    from guppylang_internals.error import GuppyError

    try:
        r = thunk()
    except GuppyError as e:
        try:
            text = render(e)
        except Exception as e2:  # noqa: BLE001
            text = f"<render failed: {type(e2).__name__}: {e2}>"
        return {"kind": "guppy_error", "error": type(e.error).__name__, "text": text}
    except RecursionError:
        return {"kind": "exception", "error": "RecursionError", "text": ""}
    except Exception as e:  # noqa: BLE001
        return {"kind": "exception", "error": type(e).__name__, "text": str(e)[:400]}
    out = {"kind": "ok"}
    if r is not None and want_bytes:
        try:
            pkg = getattr(r, "package", r)
            b = pkg.to_bytes()
            out["sha"] = hashlib.sha256(b).hexdigest()[:24]
            out["len"] = len(b)
        except Exception as e:  # noqa: BLE001
            out = {"kind": "exception", "error": "to_bytes:" + type(e).__name__,
                   "text": str(e)[:400]}
    out["result"] = r
    return out


def short(o: dict) -> str:
    if o["kind"] == "ok":
        return "ok" + (":" + o["sha"] if "sha" in o else "")
    return f"{o['kind']}:{o['error']}"
