"""Repository corpus as a workload: the test functions of /repo's tests/integration run with
stand-in fixtures, and every check()/compile()/compile_function()/compile_entrypoint()
they make is *recorded at the public API* (outermost call only).

This is a workload, not an oracle: nothing is asserted about what a test expects.  The
observation of an item is the list of recorded API outcomes (sha256 of Package.to_bytes()
or a canonical text, rendered diagnostic, or exception type) plus how the test function
ended.  C10 compares observations of one item across configurations, C11 compares the
observation of an item run after a session history with the same item run alone in a
fresh session.

Stand-ins (stated in evidence):
  validate              -> no-op (the package was already recorded when it was compiled)
  run_int_fn & co       -> builds the same comptime entry point as tests/integration/
                           conftest.py and compiles it (no emulation: HUGR emitted by
                           /repo cannot be executed in this sandbox)
  EmulatorBuilder.build -> records nothing more, raises CorpusStop (the test ends there)
Runs inside zygote children only.
"""
from __future__ import annotations

import hashlib
import importlib
import inspect
import os
import sys

_REC: list | None = None
_DEPTH = 0
_INSTALLED = False
_CANON = None          # optional canonicaliser text -> text (C11); None = sha of bytes (C10)
KNOWN_FIXTURES = {"validate", "run_int_fn", "run_nat_fn", "run_float_fn_approx"}
SKIP_MODULES = {
    "tests.integration.test_qsystem": "guppylang.std.qsystem is not importable under the shim",
    "tests.integration.test_examples": "executes notebooks / example files (I/O, slow)",
    "tests.integration.test_wasm": "needs the wasm fixture file and wasmtime",
    "tests.integration.test_emulator": "drives the real emulator",
    "tests.integration.test_state_result": "drives the real emulator",
}


class CorpusStop(Exception):
    """Raised by the emulator stand-in: the test would emulate from here on."""


def repo_root() -> str:
    return os.environ.get("VERIF_REPO", "/repo")


# --------------------------------------------------------------------------- recording
def _describe(out, exc) -> str:
    from guppylang_internals.error import GuppyError
    from sim import genv
    if exc is not None:
        if isinstance(exc, GuppyError):
            try:
                return "guppy_error:" + type(exc.error).__name__ + "\n" + genv.render(exc)
            except Exception as e2:  # noqa: BLE001
                return f"guppy_error:render-failed:{type(e2).__name__}"
        return f"exception:{type(exc).__name__}: {str(exc)[:200]}"
    if out is None:
        return "ok:none"
    try:
        pkg = getattr(out, "package", out)
        if _CANON is not None:
            return "ok:" + hashlib.sha256(_CANON(pkg).encode()).hexdigest()[:24]
        return "ok:" + hashlib.sha256(pkg.to_bytes()).hexdigest()[:24]
    except Exception as e:  # noqa: BLE001
        return f"ok-but-serialisation-failed:{type(e).__name__}: {str(e)[:120]}"


def _wrap(cls, name: str) -> None:
    orig = cls.__dict__.get(name)
    if orig is None:
        return

    def wrapper(self, *a, **k):
        global _DEPTH
        if _REC is None or _DEPTH > 0:
            return orig(self, *a, **k)
        _DEPTH += 1
        try:
            out = orig(self, *a, **k)
        except BaseException as e:  # noqa: BLE001
            _DEPTH -= 1
            _REC.append(f"{name} -> " + _describe(None, e))
            raise
        _DEPTH -= 1
        _REC.append(f"{name} -> " + _describe(out, None))
        return out

    wrapper.__name__ = name
    wrapper.__wrapped__ = orig
    setattr(cls, name, wrapper)


def install() -> None:
    """Wraps the public API methods (idempotent) and replaces EmulatorBuilder.build."""
    global _INSTALLED
    if _INSTALLED:
        return
    _INSTALLED = True
    from guppylang import defs
    from guppylang.emulator.builder import EmulatorBuilder
    for cls, names in ((defs.GuppyDefinition, ("check", "compile")),
                       (defs.GuppyFunctionDefinition,
                        ("compile", "compile_entrypoint", "compile_function"))):
        for n in names:
            _wrap(cls, n)

    def build(self, package, n_qubits=None, **kw):
        raise CorpusStop("emulation is not available in this sandbox")

    EmulatorBuilder.build = build
    root = repo_root()
    if root not in sys.path:
        sys.path.insert(0, root)
    import guppylang
    guppylang.enable_experimental_features()   # tests/conftest.py does this globally


# ----------------------------------------------------------------------------- fixtures
def _emulate_fn(ty: str):
    """The entry point tests/integration/conftest.py builds, compiled instead of emulated."""
    from guppylang.decorator import guppy
    from guppylang.std.builtins import result
    from guppylang.std.num import nat

    def f(fn, expected, num_qubits=None, args=None, **kw):
        args = args or []

        @guppy.comptime
        def int_entry() -> None:
            o: int = fn(*args)
            result("_test_output", o)

        @guppy.comptime
        def nat_entry() -> None:
            o: nat = fn(*(nat(arg) for arg in args))
            result("_test_output", o)

        @guppy.comptime
        def flt_entry() -> None:
            o: float = fn(*args)
            result("_test_output", o)

        entry = {"int": int_entry, "nat": nat_entry, "float": flt_entry}[ty]
        entry.compile()

    return f


def _fixture(name: str):
    if name == "validate":
        return lambda package, name=None: None
    if name == "run_int_fn":
        return _emulate_fn("int")
    if name == "run_nat_fn":
        return _emulate_fn("nat")
    if name == "run_float_fn_approx":
        return _emulate_fn("float")
    raise KeyError(name)


# ---------------------------------------------------------------------------- discovery
def test_modules() -> list[str]:
    root = os.path.join(repo_root(), "tests", "integration")
    out = []
    for sub, pkg in (("", "tests.integration"), ("std", "tests.integration.std"),
                     ("tracing", "tests.integration.tracing")):
        d = os.path.join(root, sub)
        if not os.path.isdir(d):
            continue
        for f in sorted(os.listdir(d)):
            if f.startswith("test_") and f.endswith(".py"):
                m = f"{pkg}.{f[:-3]}"
                if m not in SKIP_MODULES:
                    out.append(m)
    return out


def _param_sets(fn) -> list[dict] | None:
    """Expands pytest.mark.parametrize marks into keyword dicts (None: no parameters)."""
    marks = [m for m in getattr(fn, "pytestmark", []) if m.name == "parametrize"]
    if not marks:
        return None
    sets: list[dict] = [{}]
    for m in marks:
        names, values = m.args[0], list(m.args[1])
        if isinstance(names, str):
            names = [n.strip() for n in names.split(",") if n.strip()]
        new = []
        for v in values:
            if hasattr(v, "values") and hasattr(v, "marks"):
                v = v.values                       # pytest.param(...)
            elif len(names) == 1:
                v = (v,)
            for s in sets:
                new.append({**s, **dict(zip(names, v))})
        sets = new
    return sets


def discover() -> dict:
    """{"items": [id...], "skipped": {reason: count}}; id = module::function[::k]"""
    install()
    items, skipped = [], {}

    def skip(reason: str) -> None:
        skipped[reason] = skipped.get(reason, 0) + 1

    for m in test_modules():
        try:
            mod = importlib.import_module(m)
        except BaseException as e:  # noqa: BLE001
            skip(f"module import failed: {type(e).__name__}")
            continue
        for name, fn in sorted(vars(mod).items()):
            if not name.startswith("test_") or not inspect.isfunction(fn) or fn.__module__ != m:
                continue
            marks = {mk.name for mk in getattr(fn, "pytestmark", [])}
            if marks & {"skip", "skipif", "xfail"}:
                skip("marked skip/xfail")
                continue
            try:
                psets = _param_sets(fn)
            except Exception:  # noqa: BLE001
                skip("parametrize marks not understood")
                continue
            pnames = set(psets[0]) if psets else set()
            need = [p for p in inspect.signature(fn).parameters if p not in pnames]
            if any(p not in KNOWN_FIXTURES for p in need):
                skip("needs a fixture without stand-in")
                continue
            if psets is None:
                items.append(f"{m}::{name}")
            else:
                items += [f"{m}::{name}::{k}" for k in range(min(len(psets), 6))]
    return {"items": items, "skipped": skipped}


def discover_static() -> list[str]:
    """Driver-side discovery (no import of the test modules): module-level test functions
    whose arguments are parametrize names or fixtures with a stand-in; parametrised
    functions become one item that runs (up to 6 of) their parameter sets in order."""
    import ast
    out = []
    for m in test_modules():
        path = os.path.join(repo_root(), *m.split(".")) + ".py"
        try:
            tree = ast.parse(open(path).read())
        except (OSError, SyntaxError):
            continue
        for node in tree.body:
            if not isinstance(node, ast.FunctionDef) or not node.name.startswith("test_"):
                continue
            deco = [ast.unparse(d) for d in node.decorator_list]
            if any("skip" in d or "xfail" in d for d in deco):
                continue
            pnames: set[str] = set()
            for d in node.decorator_list:
                if isinstance(d, ast.Call) and ast.unparse(d.func).endswith("parametrize") and d.args:
                    a = d.args[0]
                    if isinstance(a, ast.Constant) and isinstance(a.value, str):
                        pnames |= {n.strip() for n in a.value.split(",") if n.strip()}
                    elif isinstance(a, ast.List | ast.Tuple):
                        pnames |= {e.value for e in a.elts if isinstance(e, ast.Constant)}
            args = [a.arg for a in node.args.args]
            if any(a not in pnames and a not in KNOWN_FIXTURES for a in args):
                continue
            out.append(f"{m}::{node.name}" + ("::*" if pnames else ""))
    return out


# ------------------------------------------------------------------------------ running
def run_item(item: str, canon=None) -> dict:
    """Runs one corpus item; returns {"obs": [...], "end": ...}."""
    global _REC, _CANON, _DEPTH
    install()
    parts = item.split("::")
    mod = importlib.import_module(parts[0])
    fn = getattr(mod, parts[1])
    if len(parts) > 2 and parts[2] == "*":
        psets = (_param_sets(fn) or [{}])[:6]
    elif len(parts) > 2:
        psets = [_param_sets(fn)[int(parts[2])]]
    else:
        psets = [{}]
    _REC, _CANON, _DEPTH = [], canon, 0
    ends = []
    for ps in psets:
        kwargs = dict(ps)
        for p in inspect.signature(fn).parameters:
            if p not in kwargs:
                kwargs[p] = _fixture(p)
        try:
            fn(**kwargs)
            ends.append("passed")
        except CorpusStop:
            ends.append("stopped-at-emulation")
        except BaseException as e:  # noqa: BLE001
            ends.append(f"raised:{type(e).__name__}")
    obs, _REC, _CANON = _REC, None, None
    return {"obs": obs, "end": ",".join(ends)}
