"""Seeded Guppy program generator (workload for C10 and C11).

A workload generator, not an oracle: nothing is asserted about what a generated program
means.  Every draw goes through the choice source, so a program is part of the replayable,
minimisable trace.  A light type environment keeps most programs well typed; *mistakes*
(the fault for C11, the ambiguity for C10) are planted on request with a multiplicity k so
that the compiler has a choice of what to report.
"""
from __future__ import annotations

from sim.choices import Choices

SCALARS = ("int", "bool", "float")
MISTAKES = (
    "undefined_name", "maybe_undefined", "branch_type_conflict", "call_arity",
    "call_type", "qubit_leak", "qubit_double_use", "qubit_branch_leak",
    "assign_captured", "unsupported_syntax", "unsolved_typevar", "bad_annotation",
    "return_type", "dead_code_type_error", "comptime_raises", "comptime_expr_raises",
    "entry_has_args", "non_monomorphic_entry", "struct_field_unknown", "overload_no_match",
    "nested_undefined_names", "nested_maybe_undefined_captures", "nested_branch_type_captures",
    "nested_recursive_body_fails", "struct_bad_field_type",
    "entry_const_params", "declare_const_params", "struct_methods_override_fields",
    "unsolved_pair", "family_body_fails", "uninferable_call", "maybe_undefined_dead_merge",
    "comptime_name_suggestion", "lowering_fails",
)
# mistakes that are planted at module level, not inside a function body
MODULE_LEVEL = ("comptime_raises", "entry_has_args", "non_monomorphic_entry",
                "struct_bad_field_type", "entry_const_params", "declare_const_params",
                "struct_methods_override_fields", "family_body_fails")
CONST_PARAMS = (("xb", "bool"), ("yf", "float"), ("zi", "int"), ("wb", "bool"))


def ind(lines: list[str], n: int = 4) -> list[str]:
    return [" " * n + l for l in lines]


class FnSig:
    def __init__(self, name: str, params: list[tuple[str, str]], ret: str, kind: str = "fn"):
        self.name, self.params, self.ret, self.kind = name, params, ret, kind


class Body:
    """Generates one function body."""

    def __init__(self, g: "ProgGen", sig: FnSig, callees: list[FnSig], max_stmts: int,
                 max_depth: int):
        self.g, self.ch, self.sig, self.callees = g, g.ch, sig, callees
        self.budget = max_stmts
        self.max_depth = max_depth
        self.counter = 0
        self.nested: list[FnSig] = []
        self.readonly: set[str] = set()   # captured variables may not be assigned to

    # ---- expressions
    def fresh(self, prefix: str = "v") -> str:
        self.counter += 1
        return f"{prefix}{self.counter}"

    def vars_of(self, env: dict, ty: str) -> list[str]:
        return [v for v, t in env.items() if t == ty]

    def expr(self, env: dict, ty: str, depth: int = 0) -> str:
        ch = self.ch
        vs = self.vars_of(env, ty)
        k = ch.draw(12, "e")
        if depth >= 2:
            k = k % 4
        if ty.startswith("lit:"):
            return ty[4:]
        if ty == "int":
            if k < 3 and vs:
                return ch.pick(vs, "ev")
            if k < 5:
                return str(ch.draw(10, "lit"))
            if k < 8:
                op = ch.pick(("+", "-", "*"), "op")
                return f"({self.expr(env, 'int', depth + 1)} {op} {self.expr(env, 'int', depth + 1)})"
            if k == 8:
                return f"({self.expr(env, 'int', depth + 1)} if {self.expr(env, 'bool', depth + 1)} else {self.expr(env, 'int', depth + 1)})"
            if k == 9:
                c = self.call(env, "int", depth)
                if c:
                    return c
            if k == 10:
                for s in self.g.structs:
                    svs = self.vars_of(env, s["name"])
                    ints = [f for f, t in s["fields"] if t == "int"]
                    if svs and s["methods"] and ch.draw(2, "meth"):
                        return f"{ch.pick(svs, 'sv')}.meth({self.expr(env, 'int', depth + 1)})"
                    if svs and ints:
                        return f"{ch.pick(svs, 'sv')}.{ch.pick(ints, 'sf')}"
                if ch.draw(2, "ct_expr"):
                    return ch.pick((f"comptime({ch.draw(5, 'c1')} + {ch.draw(5, 'c2')})",
                                    "comptime(True + 0)", "comptime(int(1.0))"), "ct_int_form")
            if k == 11:
                avs = self.vars_of(env, "array[int, 3]")
                if avs:
                    return f"{ch.pick(avs, 'av')}[{ch.draw(3, 'ai')}]"
            return str(ch.draw(10, "lit"))
        if ty == "bool":
            if k < 2 and vs:
                return ch.pick(vs, "ev")
            if k < 4:
                return ch.pick(("True", "False"), "blit")
            if k < 8:
                op = ch.pick(("<", "<=", "==", "!=", ">"), "cmp")
                return f"({self.expr(env, 'int', depth + 1)} {op} {self.expr(env, 'int', depth + 1)})"
            if k == 8:
                return f"(not {self.expr(env, 'bool', depth + 1)})"
            if k == 9:
                op = ch.pick(("and", "or"), "bop")
                return f"({self.expr(env, 'bool', depth + 1)} {op} {self.expr(env, 'bool', depth + 1)})"
            if k == 10:
                return f"({self.expr(env, 'int', depth + 1)} < {self.expr(env, 'int', depth + 1)} <= {self.expr(env, 'int', depth + 1)})"
            c = self.call(env, "bool", depth)
            return c or "True"
        if ty == "float":
            if k < 3 and vs:
                return ch.pick(vs, "ev")
            if k < 6:
                # incl. values that compare (and hash) equal although they are different
                # constants: 0.0 / -0.0 (the latter only arises at comptime)
                return ch.pick(("0.5", "1.5", "2.25", "0.0", "comptime(-0.0)", "comptime(0.0)",
                                "1.0", "comptime(True + 0.0)"), "flit")
            if k < 9:
                op = ch.pick(("+", "-", "*"), "op")
                return f"({self.expr(env, 'float', depth + 1)} {op} {self.expr(env, 'float', depth + 1)})"
            if k == 9:
                return f"({self.expr(env, 'int', depth + 1)} + {self.expr(env, 'float', depth + 1)})"
            c = self.call(env, "float", depth)
            return c or "1.5"
        if ty == "tuple[int, bool]":
            if k < 5 and vs:
                return ch.pick(vs, "ev")
            return f"({self.expr(env, 'int', depth + 1)}, {self.expr(env, 'bool', depth + 1)})"
        if ty == "array[int, 3]":
            # arrays are not copyable: never alias a variable, always build a fresh one
            if k >= 9:
                it = self.fresh("c")
                e2 = dict(env)
                e2[it] = "int"
                ivs = self.vars_of(env, "int")
                el = f"({it} + {ch.pick(ivs, 'cv') if ivs and ch.draw(2, 'cvar') else ch.draw(9, 'clit')})"
                return f"array({el} for {it} in range(3))"
            return "array(%s, %s, %s)" % tuple(self.expr(env, "int", depth + 1) for _ in range(3))
        for s in self.g.structs:
            if s["name"] == ty:
                if k < 5 and vs:
                    return ch.pick(vs, "ev")
                return f"{ty}({', '.join(self.expr(env, t, depth + 1) for _, t in s['fields'])})"
        raise ValueError(ty)

    def call(self, env: dict, ret: str, depth: int) -> str | None:
        cands = [c for c in self.callees + self.nested if c.ret == ret
                 and all(t != "qubit" for _, t in c.params)]
        if not cands:
            return None
        c = self.ch.pick(cands, "callee")
        args = ", ".join(self.expr(env, t, depth + 1) for _, t in c.params)
        return f"{c.name}({args})"

    # ---- statements
    def some_type(self) -> str:
        ts = list(SCALARS) + ["tuple[int, bool]", "array[int, 3]"] + [s["name"] for s in self.g.structs]
        k = self.ch.draw(len(ts) + 4, "ty")
        return ts[k] if k < len(ts) else "int"

    def block(self, env: dict, depth: int, in_loop: bool) -> list[str]:
        ch = self.ch
        out: list[str] = []
        n = ch.rng_int(1, 4, "blk")
        jumped = False
        n_nested = len(self.nested)
        for _ in range(n):
            if self.budget <= 0:
                break
            self.budget -= 1
            if jumped and ch.draw(3, "dead") != 0:
                break   # usually stop after a jump; sometimes emit unreachable code
            k = ch.draw(26, "s")
            if k >= 24:
                out += self.dead_jump_merge(env) if depth <= 2 and k == 24 else ["pass"]
            elif k == 5 and depth == 0 and ch.draw(2, "twins") == 0:
                out += self.twins(env)
            elif k < 6:
                ty = self.some_type()
                vs = [v for v in self.vars_of(env, ty) if v not in self.readonly]
                if vs and ch.draw(2, "reassign"):
                    v = ch.pick(vs, "tv")
                elif depth == 0 or True:
                    v = self.fresh()
                out.append(f"{v} = {self.expr(env, ty)}")
                env[v] = ty
            elif k < 8:
                ty = ch.pick(("int", "float"), "augty")
                vs = [v for v in self.vars_of(env, ty) if v not in self.readonly]
                if vs:
                    out.append(f"{ch.pick(vs, 'tv')} {ch.pick(('+=', '-=', '*='), 'aug')} {self.expr(env, ty)}")
                else:
                    v = self.fresh()
                    out.append(f"{v}: {ty} = {self.expr(env, ty)}")
                    env[v] = ty
            elif k < 11 and depth < self.max_depth:
                out.append(f"if {self.expr(env, 'bool')}:")
                out += ind(self.block(dict(env), depth + 1, in_loop))
                e = ch.draw(3, "else")
                if e >= 1:
                    if e == 2:
                        out.append(f"elif {self.expr(env, 'bool')}:")
                        out += ind(self.block(dict(env), depth + 1, in_loop))
                    out.append("else:")
                    out += ind(self.block(dict(env), depth + 1, in_loop))
            elif k < 13 and depth < self.max_depth:
                c = ch.draw(6, "wcond")
                cond = "True" if c == 0 else "False" if c == 1 else self.expr(env, "bool")
                out.append(f"while {cond}:")
                body = self.block(dict(env), depth + 1, True)
                if cond == "True" and not any("break" in l or "return" in l for l in body):
                    body.append("break")
                out += ind(body)
            elif k < 15 and depth < self.max_depth:
                it = self.fresh("i")
                avs = self.vars_of(env, "array[int, 3]")
                if avs and ch.draw(3, "for_arr") == 0 and depth == 0:
                    a = ch.pick(avs, 'fa')
                    out.append(f"for {it} in {a}:")
                    del env[a]   # iteration consumes the array
                else:
                    out.append(f"for {it} in range({ch.draw(5, 'n')}):")
                e2 = dict(env)
                e2[it] = "int"
                out += ind(self.block(e2, depth + 1, True))
            elif k == 15 and in_loop:
                out.append(ch.pick(("break", "continue"), "jump"))
                jumped = True
            elif k == 16 and depth > 0:
                out.append(f"return {self.expr(env, self.sig.ret)}" if self.sig.ret != "None" else "return")
                jumped = True
            elif k in (17, 23) and depth < 2 and len(self.nested) < 2:
                out += self.nested_fn(env)
            elif k == 18:
                c = self.call(env, ch.pick(SCALARS, "cty"), 0)
                out.append(c if c else "pass")
            elif k == 19:
                out += self.qubit_block(env)
            elif k == 20:
                a, b = self.fresh(), self.fresh()
                tvs = self.vars_of(env, "tuple[int, bool]")
                rhs = ch.pick(tvs, "tup") if tvs and ch.draw(2, "tupv") else \
                    f"{self.expr(env, 'int')}, {self.expr(env, 'bool')}"
                out.append(f"{a}, {b} = {rhs}")
                env[a], env[b] = "int", "bool"
            elif k == 21:
                avs = self.vars_of(env, "array[int, 3]")
                out.append(f"{ch.pick(avs, 'av')}[{ch.draw(3, 'ai')}] = {self.expr(env, 'int')}"
                           if avs else "pass")
            elif k == 22 and ch.draw(2, "res_or_walrus"):
                ty = ch.pick(SCALARS, "res_ty")
                out.append(f"result(\"t{ch.draw(3, 'tag')}\", {self.expr(env, ty)})")
            elif k == 22:
                v = self.fresh("w")
                out.append(f"{self.fresh()} = ({v} := {self.expr(env, 'int')}) + 1")
                env[v] = "int"
            else:
                out.append("pass")
        del self.nested[n_nested:]   # nested functions are only callable in their block
        return out or ["pass"]

    def twins(self, env: dict) -> list[str]:
        """Two variables whose names differ only in leading zeros of a digit run (they tie
        under a natural sort key), of the same type, both kept alive across control flow."""
        ch = self.ch
        n = self.counter = self.counter + 1
        stem = ch.pick(("t", "q", "r_"), "twin_stem")
        a, b = f"{stem}{n}", f"{stem}0{n}"
        ty = ch.pick(("int", "float"), "twin_ty")
        one = "1" if ty == "int" else "0.5"
        out = [f"{a} = {self.expr(env, ty)}", f"{b} = {self.expr(env, ty)}"]
        form = ch.draw(3, "twin_form")
        if form == 0:
            out += [f"if {self.expr(env, 'bool')}:", f"    {a} = {a} + {one}"]
        elif form == 1:
            it = self.fresh("i")
            out += [f"for {it} in range({ch.rng_int(1, 3, 'twin_n')}):",
                    f"    if {self.expr(env, 'bool')}:", f"        {a} = {a} + {b}",
                    "    else:", f"        {b} = {b} + {one}"]
        else:
            c = self.fresh("k")
            out += [f"{c} = 0", f"while {c} < 2:", f"    {b} = {b} - {a}", f"    {c} += 1"]
        v = self.fresh()
        out.append(f"{v} = {a} - {b}")
        env[a], env[b], env[v] = ty, ty, ty
        return out

    def dead_jump_merge(self, env: dict, maybe: bool = False) -> list[str]:
        """A loop whose body ends in an if/else where both arms jump, followed by a dead
        jump: dead code jumping into a reachable merge block that keeps two live
        predecessors.  With `maybe`, a variable is assigned under a further condition in
        each arm and used after the loop (two equally distant candidate branches)."""
        ch = self.ch
        a, b = self.fresh("dj"), self.fresh("dj")
        dead = ch.pick(("break", "continue", "break"), "dead_jump")
        out = [] if maybe else [f"{a} = {self.expr(env, 'int', 1)}", f"{b} = {self.expr(env, 'int', 1)}"]
        out += ["while True:"]
        if ch.draw(2, "djm_pre_if"):
            out += [f"    if {self.expr(env, 'bool', 1)}:", "        pass"]
        c = self.expr(env, "bool", 1)
        if maybe:
            # conditions that are certainly not constant-folded: comparisons of a variable
            dc = self.fresh("dc")
            out.insert(0, f"{dc} = {self.expr(env, 'int', 1)}")
            c, c1, c2 = f"{dc} < 1", f"{dc} < 2", f"{dc} < 3"
            out += [f"    if {c}:", f"        if {c1}:", f"            {a} = 1", "        break",
                    "    else:", f"        if {c2}:", f"            {a} = 2", "        break",
                    f"    {dead}"]
            return out + [f"{self.fresh('u')} = {a} + 1"]
        out += [f"    if {c}:", f"        {a} = {a} + 1", "        break",
                "    else:", f"        {b} = {b} + {a}", "        break", f"    {dead}"]
        env[a], env[b] = "int", "int"
        v = self.fresh()
        out.append(f"{v} = {a} - {b}")
        env[v] = "int"
        return out

    def qubit_block(self, env: dict) -> list[str]:
        ch = self.ch
        q1, q2 = self.fresh("q"), self.fresh("q")
        out = [f"{q1} = qubit()", f"h({q1})"]
        if self.g.qhelpers and ch.draw(2, "qh"):
            out.append(f"{self.g.prefix}qgate({q1})")
        two = ch.draw(2, "two_q")
        if two:
            out += [f"{q2} = qubit()", f"cx({q1}, {q2})"]
        b = self.fresh("m")
        if self.g.qhelpers and ch.draw(2, "qm"):
            out.append(f"{b} = {self.g.prefix}qmeas({q1})")
        else:
            out.append(f"{b} = measure({q1})")
        env[b] = "bool"
        if two:
            out.append(f"discard({q2})" if ch.draw(2, "disc") else f"{self.fresh('m')} = measure({q2})")
        return out

    def nested_fn(self, env: dict) -> list[str]:
        ch = self.ch
        name = self.fresh("nf")
        shadowing = False
        if self.g.params.get("shadow_names") and ch.draw(2, "shadow") == 0:
            # reuse the name of a module-level function of the same shape
            same = [c.name for c in self.callees if c.kind == "fn" and c.ret == "int"
                    and [t for _, t in c.params] == ["int"]]
            if same:
                name = ch.pick(same, "shadow_name")
                shadowing = True
        kind = ch.draw(4, "nested_kind")
        if shadowing and ch.draw(2, "shadow_rec"):
            kind = 2   # 0 plain, 1 capturing, 2 recursive, 3 recursive capturing
        p = self.fresh("p")
        ints = self.vars_of(env, "int")
        caps: list[str] = []
        if ints and kind in (1, 3) and self.g.allow_capture:
            caps = ch.shuffle(ints, "caps")[: ch.rng_int(1, 3, "n_caps")]
        cap = caps[0] if caps else None
        body_env = {p: "int"}
        for c in caps:
            body_env[c] = "int"
        sub = Body(self.g, FnSig(name, [(p, "int")], "int"), self.callees, min(self.budget, 4),
                   1)
        sub.counter = self.counter + 100
        sub.readonly = set(caps) | self.readonly
        lines = sub.block(body_env, 1, False)
        ret = self.expr(body_env, "int", 1)
        if kind >= 2:
            ret = f"{name}({p} - 1) + {ret}" if ch.draw(2, "rec_form") else \
                f"({ret} if {p} < 1 else {name}({p} - 1))"
        for c in caps:
            ret = f"({ret} + {c})"
        out = [f"def {name}({p}: int) -> int:"] + ind(lines + [f"return {ret}"])
        self.nested.append(FnSig(name, [(p, "int")], "int"))
        v = self.fresh()
        out.append(f"{v} = {name}({self.expr(env, 'int', 1)})")
        env[v] = "int"
        return out

    def function(self, mistake: dict | None = None) -> list[str]:
        env = {p: t for p, t in self.sig.params if t != "qubit"}
        lines = self.block(env, 0, False)
        while self.budget > 0 and self.ch.draw(3, "more") != 0:
            lines += self.block(env, 0, False)
        if mistake:
            lines = plant(self, lines, env, mistake)
        if self.sig.ret != "None":
            lines.append(f"return {self.expr(env, self.sig.ret)}" if not (mistake and mistake.get("ret"))
                         else f"return {mistake['ret']}")
        return lines


def plant(b: Body, lines: list[str], env: dict, m: dict) -> list[str]:
    """Inserts the statements of a planted mistake (multiplicity k) into a body."""
    ch, kind, k = b.ch, m["kind"], m["k"]
    ins: list[list[str]] = []
    tail: list[str] = []
    if kind == "undefined_name":
        ins = [[f"{b.fresh('u')} = undef_{j} + {j}"] for j in range(k)]
    elif kind == "maybe_undefined":
        names = [b.fresh("mu") for _ in range(k)]
        ins = [[f"if {b.expr(env, 'bool')}:"] + [f"    {n} = {j}" for j, n in enumerate(names)]]
        tail = [f"{b.fresh('u')} = {n} + 1" for n in names for _ in range(1 + ch.draw(2, 'uses'))]
    elif kind == "branch_type_conflict":
        names = [b.fresh("bt") for _ in range(k)]
        ins = [[f"if {b.expr(env, 'bool')}:"] + [f"    {n} = {j}" for j, n in enumerate(names)]
               + ["else:"] + [f"    {n} = {('True', '1.5', '(1, 2)')[j % 3]}" for j, n in enumerate(names)]]
        tail = [f"{b.fresh('u')} = {n}" for n in names]
    elif kind == "call_arity":
        c = (b.callees + [FnSig("h", [("q", "qubit")], "None")])[0]
        ins = [[f"{c.name}({', '.join(['1'] * (len(c.params) + 1 + j))})"] for j in range(k)]
    elif kind == "call_type":
        cs = [c for c in b.callees if c.params and c.params[0][1] in ("int", "bool", "float")]
        if cs:
            c = cs[0]
            ins = [[f"{c.name}({', '.join(['(1, 2, 3)'] * len(c.params))})"] for _ in range(k)]
        else:
            ins = [[f"{b.fresh('u')} = 1 + (1, 2)"] for _ in range(k)]
    elif kind == "qubit_leak":
        ins = [[f"{b.fresh('lq')} = qubit()"] for _ in range(k)]
    elif kind == "qubit_double_use":
        qs = [b.fresh("dq") for _ in range(k)]
        ins = [[f"{q} = qubit()", f"discard({q})", f"discard({q})"] for q in qs]
    elif kind == "qubit_branch_leak":
        qs = [b.fresh("bq") for _ in range(k)]
        ins = [[f"{q} = qubit()" for q in qs] + [f"if {b.expr(env, 'bool')}:"]
               + [f"    discard({q})" for q in qs]]
    elif kind == "assign_captured":
        # k captured variables are illegally assigned back to back in ONE block of the closure
        vs_ = [b.fresh("cv") for _ in range(k)]
        ins = [[f"{v} = 1" for v in vs_] + [f"def {b.fresh('nf')}(p: int) -> int:",
                                            f"    r = {' + '.join(vs_)} + p"]
               + [f"    {v} = p" for v in vs_] + ["    return r"]]
    elif kind == "unsupported_syntax":
        forms = (["while False:", "    pass", "else:", "    pass"],
                 ["try:", "    pass", "except Exception:", "    pass"],
                 [f"{b.fresh('u')} = lambda z: z"],
                 ["global gg"], ["del undefined_thing"])
        ins = [list(forms[(ch.draw(len(forms), 'form') + j) % len(forms)]) for j in range(k)]
    elif kind == "unsolved_typevar":
        ins = [[f"{b.fresh('u')} = array()"] for _ in range(k)]
    elif kind == "bad_annotation":
        ins = [[f"{b.fresh('u')}: NoSuchType{j} = 1"] for j in range(k)]
    elif kind == "return_type":
        m["ret"] = "(1, 2, 3, 4)"
    elif kind == "dead_code_type_error":
        ins = [["if False:"] + [f"    {b.fresh('u')} = 1 + (1, 2)" for _ in range(k)]]
    elif kind == "nested_undefined_names":
        nf = b.fresh("nf")
        ins = [[f"def {nf}(p: int) -> int:",
                "    return p + " + " + ".join(f"nundef_{j}" for j in range(k + 1)),
                f"{b.fresh('u')} = {nf}(1)"]]
    elif kind == "nested_maybe_undefined_captures":
        names = [b.fresh("nm") for _ in range(k + 1)]
        nf = b.fresh("nf")
        ins = [[f"if {b.expr(env, 'bool')}:"] + [f"    {n} = {j}" for j, n in enumerate(names)]
               + [f"def {nf}(p: int) -> int:", "    return p + " + " + ".join(names),
                  f"{b.fresh('u')} = {nf}(1)"]]
    elif kind == "nested_branch_type_captures":
        names = [b.fresh("nb") for _ in range(k + 1)]
        nf = b.fresh("nf")
        ins = [[f"if {b.expr(env, 'bool')}:"] + [f"    {n} = {j}" for j, n in enumerate(names)]
               + ["else:"] + [f"    {n} = {('True', '1.5', '(1, 2)')[j % 3]}" for j, n in enumerate(names)]
               + [f"def {nf}(p: int) -> int:", f"    {b.fresh('t')} = ({', '.join(names)})", "    return p",
                  f"{b.fresh('u')} = {nf}(1)"]]
    elif kind == "nested_recursive_body_fails":
        # a recursive, non-capturing nested function whose own body is wrong; preferably
        # named like a module-level function of the same shape
        same = [c.name for c in b.callees if c.kind == "fn" and c.ret == "int"
                and [t for _, t in c.params] == ["int"]]
        nf = ch.pick(same, "shadow_name") if same and ch.draw(4, "shadow") else b.fresh("nf")
        bad = ("zz = measure(p)", "zz = p + (1, 2)", "zz: NoSuchTy = p",
               "zz = p.nofield")[ch.draw(4, "nested_bad")]
        ins = [[f"def {nf}(p: int) -> int:", f"    {bad}", "    if p < 1:", "        return 0",
                f"    return {nf}(p - 1)", f"{b.fresh('u')} = {nf}(3)"]]
    elif kind == "unsolved_pair":
        # several inference variables with the same display name inside ONE printed type
        n = k + 1
        forms = (f"{b.fresh('u')} = ({', '.join(['nothing()'] * n)})",
                 f"{b.fresh('u')} = comptime(({', '.join(['[]'] * n)}))",
                 f"{b.fresh('u')}: int = comptime(({', '.join(['[]'] * n)}))",
                 f"{b.fresh('u')}: int = ({', '.join(['nothing()'] * n)})")
        ins = [[forms[ch.draw(len(forms), "unsolved_form")]]]
    elif kind == "maybe_undefined_dead_merge":
        ins = [b.dead_jump_merge(env, maybe=True)]
    elif kind == "lowering_fails":
        # passes checking, raises while the body is LOWERED (compile stage)
        gen_fn = next((c.name for c in b.callees if c.kind == "generic"), None)
        forms = [f"{b.fresh('u')} = len"] + ([f"{b.fresh('u')} = {gen_fn}"] if gen_fn else [])
        ins = [[forms[(ch.draw(2, 'lowering_form') + j) % len(forms)]] for j in range(k)]
    elif kind == "comptime_name_suggestion":
        # a comptime expression that raises NameError while mentioning k+1 defined Python
        # names equally close to the missing one (the interpreter's "Did you mean" hint
        # becomes part of the diagnostic)
        names = [f"ctv_{c}" for c in "abcd"[: k + 1]]
        ins = [[f"{b.fresh('u')} = comptime({' + '.join(names)} + ctv_z)"]]
    elif kind == "uninferable_call":
        # a generic call checked against a type with inference variables of its own: the
        # note names one of k+1 variables that have no instantiation
        ins = [[f"{b.g.prefix}hr_use({b.g.prefix}hr_mk())"]]
    elif kind == "struct_field_unknown":
        if b.g.structs:
            s = b.g.structs[0]
            v = b.fresh("sv")
            ins = [[f"{v} = {b.expr(env, s['name'])}"] + [f"{b.fresh('u')} = {v}.nofield{j}" for j in range(k)]]
        else:
            ins = [[f"{b.fresh('u')} = (1).nofield"]]
    else:
        ins = [[f"{b.fresh('u')} = undef_x"]]
    # the k mistakes either go to k drawn top-level positions, or - so that they share one
    # NON-entry block and scope - together into the body of a fresh if / for / while
    if kind in ("undefined_name", "call_arity", "call_type", "qubit_leak", "qubit_double_use",
                "unsolved_typevar", "bad_annotation", "unsolved_pair", "struct_field_unknown",
                "uninferable_call") and ins and ch.draw(2, "mistakes_in_one_block"):
        hdr = (f"if {b.expr(env, 'bool')}:", f"for {b.fresh('i')} in range(2):",
               f"while {b.expr(env, 'bool')}:")[ch.draw(3, "mistake_block")]
        ins = [[hdr] + ind([l for stmts in ins for l in stmts])]
    # insertion points: top level positions (kept in order)
    top = [i for i, l in enumerate(lines) if not l.startswith((" ", "else", "elif"))] \
        + [len(lines)]
    pos = sorted(ch.pick(top, "mistake_pos") for _ in ins)
    out = list(lines)
    for p, stmts in sorted(zip(pos, ins), key=lambda t: -t[0]):
        out[p:p] = stmts
    return out + tail


class ProgGen:
    def __init__(self, ch: Choices, params: dict | None = None):
        self.ch = ch
        self.params = params or {}
        self.structs: list[dict] = []
        self.allow_capture = self.params.get("allow_capture", False)
        self.qhelpers = False
        self.prefix = ""

    def struct_src(self, s: dict) -> list[str]:
        out = ["@guppy.struct", f"class {s['name']}:"] + [f"    {f}: {t}" for f, t in s["fields"]]
        for mname, body in s["methods"]:
            out += ["", "    @guppy", f"    def {mname}(self: \"{s['name']}\", d: int) -> int:"] + ind(body, 8)
        return out

    def module(self, n_funcs: int | None = None, mistake: dict | None = None,
               prefix: str = "") -> dict:
        """Returns {"source", "defs": [names], "entry": name, "sigs"}: a module with
        structs, helper functions, optional generic / overloaded / comptime families and
        an argument-free entry `main` that calls into them."""
        ch = self.ch
        src: list[str] = []
        defs: list[str] = []
        sigs: list[FnSig] = []
        max_stmts = self.params.get("max_stmts", 12)
        max_depth = self.params.get("max_depth", 3)
        n_structs = ch.draw(3, "n_structs")
        bad_structs: list[str] = []
        if mistake and mistake["kind"] == "struct_bad_field_type":
            n_structs = max(n_structs, 2)
        for si in range(n_structs):
            fields = [(f"f{j}", ch.pick(SCALARS, "fty")) for j in range(ch.rng_int(1, 3, "nf"))]
            if not any(t == "int" for _, t in fields):
                fields.append(("fi", "int"))
            s = {"name": f"{prefix}S{si}", "fields": fields, "methods": []}
            if mistake and mistake["kind"] == "struct_bad_field_type" and si < mistake["k"]:
                bad_structs.append(s["name"])
            if ch.draw(2, "has_method"):
                ints = [f for f, t in fields if t == "int"]
                s["methods"].append(("meth", [f"return self.{ints[0]} + d"]))
            self.structs.append(s)
            ssrc = self.struct_src(s)
            if s["name"] in bad_structs:
                ssrc.insert(3, f"    fbad: NoSuchFieldType{si}")
            src += ssrc + [""]
            defs.append(s["name"])
        fams = {"generic": ch.draw(3, "fam_generic") == 0, "overload": ch.draw(4, "fam_over") == 0,
                "comptime": ch.draw(3, "fam_ct") == 0, "natgen": ch.draw(4, "fam_nat") == 0}
        self.prefix = prefix
        fams["qhelpers"] = ch.draw(3, "fam_q") == 0
        fams["ctarg"] = ch.draw(3, "fam_ctarg") == 0
        fams["decl"] = ch.draw(4, "fam_decl") == 0
        fams["factory"] = ch.draw(4, "fam_factory") == 0
        fams["sumtypes"] = ch.draw(4, "fam_sum") == 0
        fams["ctlist"] = ch.draw(4, "fam_ctlist") == 0
        fams["gstruct"] = ch.draw(4, "fam_gstruct") == 0
        fams["affine"] = ch.draw(4, "fam_affine") == 0
        fams["custext"] = ch.draw(5, "fam_custext") == 0
        fams["borrowcomp"] = ch.draw(4, "fam_borrowcomp") == 0
        fams["externct"] = ch.draw(3, "fam_externct") == 0
        if fams["qhelpers"]:
            self.qhelpers = True
            src += ["@guppy", f"def {prefix}qgate(q: qubit) -> None:", "    h(q)", "    x(q)", "",
                    "@guppy", f"def {prefix}qmeas(q: qubit @owned) -> bool:", "    h(q)",
                    "    return measure(q)", ""]
            defs += [f"{prefix}qgate", f"{prefix}qmeas"]
        if fams["ctarg"]:
            src += ["@guppy", f"def {prefix}cta(x: int, k: int @comptime) -> int:",
                    "    acc = x", "    if k > 1:", "        acc = acc * k", "    return acc + k", ""]
            defs.append(f"{prefix}cta")
            for kv in (2, 3, ch.draw(3, "cta_k")):
                sigs.append(FnSig(f"{prefix}cta", [("x", "int"), ("k", f"lit:{kv}")], "int", "ctarg"))
            # comptime arguments of other kinds: several monomorphic instances of one
            # definition pending at the same time (strings hash per interpreter run)
            cty, cvals = ch.pick((("str", ('"alpha"', '"beta"', '"gamma"')), ("bool", ("True", "False")),
                                  ("float", ("0.5", "1.5", "-0.0"))), "ctarg_kind")
            src += ["@guppy", f"def {prefix}ctt(x: int, tag: {cty} @comptime) -> int:",
                    "    result(\"t\", x)" if cty != "str" else "    result(tag, x)",
                    f"    return {prefix}cta(x, 2) + 1", ""]
            defs.append(f"{prefix}ctt")
            for cv in cvals:
                sigs.append(FnSig(f"{prefix}ctt", [("x", "int"), ("tag", f"lit:{cv}")], "int", "ctarg2"))
        if fams["decl"]:
            src += ["@guppy.declare", f"def {prefix}ext(x: int, y: bool) -> int: ...", ""]
            defs.append(f"{prefix}ext")
            sigs.append(FnSig(f"{prefix}ext", [("x", "int"), ("y", "bool")], "int", "decl"))
        if fams["generic"]:
            src += [f"{prefix}T = guppy.type_var(\"{prefix}T\")", "", "@guppy",
                    f"def {prefix}ident(x: {prefix}T) -> {prefix}T:", "    return x", "",
                    "@guppy", f"def {prefix}pick(c: bool, x: {prefix}T, y: {prefix}T) -> {prefix}T:",
                    "    if c:", "        return x", "    return y", ""]
            defs += [f"{prefix}ident", f"{prefix}pick"]
            for t in ("int", "bool", "float"):
                sigs.append(FnSig(f"{prefix}ident", [("x", t)], t, "generic"))
                sigs.append(FnSig(f"{prefix}pick", [("c", "bool"), ("x", t), ("y", t)], t, "generic"))
        if fams["natgen"]:
            src += [f"{prefix}n = guppy.nat_var(\"{prefix}n\")", "", "@guppy",
                    f"def {prefix}asum(xs: array[int, {prefix}n] @owned) -> int:", "    acc = 0",
                    "    for x in xs:", "        acc += x", "    return acc", ""]
            defs.append(f"{prefix}asum")
            sigs.append(FnSig(f"{prefix}asum", [("xs", "array[int, 3]")], "int", "generic"))
        if fams["overload"]:
            src += ["@guppy", f"def {prefix}ov_i(x: int) -> int:", "    return x + 1", "",
                    "@guppy", f"def {prefix}ov_f(x: float) -> float:", "    return x * 2.0", "",
                    f"@guppy.overload({prefix}ov_i, {prefix}ov_f)", f"def {prefix}ov(x): ...", ""]
            defs += [f"{prefix}ov_i", f"{prefix}ov_f", f"{prefix}ov"]
            sigs.append(FnSig(f"{prefix}ov", [("x", "int")], "int", "overload"))
            sigs.append(FnSig(f"{prefix}ov", [("x", "float")], "float", "overload"))
        if fams["comptime"]:
            cm = mistake if mistake and mistake["kind"] in ("comptime_raises",) else None
            body = ["acc = x", f"for i in range({ch.rng_int(1, 4, 'ct_n')}):", "    acc = acc + i"]
            if cm:
                body.insert(ch.draw(len(body) + 1, "ct_raise_pos"), "raise RuntimeError('comptime boom')")
            src += ["@guppy.comptime", f"def {prefix}ct(x: int) -> int:"] + ind(body + ["return acc"]) + [""]
            defs.append(f"{prefix}ct")
            sigs.append(FnSig(f"{prefix}ct", [("x", "int")], "int", "comptime"))
        if fams["factory"]:
            # one Python factory, several definitions at the SAME source position that
            # differ only in the type a closure variable refers to
            src += [f"def {prefix}make_rep(T):", "    @guppy", f"    def {prefix}rep(x: T) -> T:",
                    "        result(\"rep\", x)"]
            if fams["overload"]:
                src += [f"        y = {prefix}ov(x)", "        return y + x"]
            else:
                src += ["        y = x + x", "        return y"]
            src += [f"    return {prefix}rep", "",
                    f"{prefix}rep_i = {prefix}make_rep(gint)", f"{prefix}rep_f = {prefix}make_rep(gfloat)", ""]
            defs += [f"{prefix}rep_i", f"{prefix}rep_f"]
            sigs.append(FnSig(f"{prefix}rep_i", [("x", "int")], "int", "factory"))
            sigs.append(FnSig(f"{prefix}rep_f", [("x", "float")], "float", "factory"))
        if fams["sumtypes"]:
            lt, rt = ch.pick((("int", "float"), ("bool", "int"), ("float", "bool")), "either_tys")
            lit = {"int": "3", "float": "1.5", "bool": "True"}
            src += ["@guppy", f"def {prefix}opt(x: int, c: bool) -> Option[int]:", "    if c:",
                    "        return some(x)", "    return nothing()", "",
                    "@guppy", f"def {prefix}eith(c: bool) -> Either[{lt}, {rt}]:", "    if c:",
                    f"        return left({lit[lt]})", f"    return right({lit[rt]})", "",
                    "@guppy", f"def {prefix}sums(x: int, c: bool) -> int:",
                    f"    o = {prefix}opt(x, c)", "    acc = 0", "    if o.is_some():",
                    "        acc = o.unwrap()", f"    e = {prefix}eith(c)", "    if e.is_left():",
                    "        acc += 1", "    return acc", ""]
            defs += [f"{prefix}opt", f"{prefix}eith", f"{prefix}sums"]
            sigs.append(FnSig(f"{prefix}sums", [("x", "int"), ("c", "bool")], "int", "sumtypes"))
        if fams["externct"]:
            # a definition created from a TYPE STRING with a comptime argument that reads a
            # Python variable of the user's module (the variable may be rebound between ops)
            src += [f"{prefix}NCT = 2", f"{prefix}tbl = guppy._extern(\"{prefix}tbl\", ty=\"array[int, comptime({prefix}NCT)]\")", "",
                    "@guppy", f"def {prefix}tsize() -> int:", f"    return len({prefix}tbl)", ""]
            defs += [f"{prefix}tbl", f"{prefix}tsize"]
            sigs.append(FnSig(f"{prefix}tsize", [], "int", "externct"))
        if fams["borrowcomp"]:
            # comprehensions whose body borrows several non-copyable outer places
            src += ["@guppy", f"def {prefix}bsum(xa: array[int, 3], xb: array[int, 3], xc: array[int, 3]) -> int:",
                    "    return xa[0] + xb[1] + xc[2]", "",
                    "@guppy", f"def {prefix}bcomp(n: int) -> int:",
                    "    alpha = array(1, 2, 3)", "    beta = array(4, 5, n)", "    gamma = array(n, 8, 9)",
                    f"    ys = array({prefix}bsum(alpha, beta, gamma) + i for i in range(3))",
                    f"    zs = array({prefix}bsum(gamma, alpha, beta) + j + ys[0] for j in range(2))",
                    "    return ys[1] + zs[0] + alpha[0] + beta[0] + gamma[0]", ""]
            defs += [f"{prefix}bsum", f"{prefix}bcomp"]
            sigs.append(FnSig(f"{prefix}bcomp", [("n", "int")], "int", "borrowcomp"))
        if fams["custext"]:
            # a user-defined hugr extension with one op, exposed through @hugr_op
            src += [f"{prefix}XEXT = _he.Extension(\"demo.ext{ch.draw(3, 'ext_n')}\", _he.Version(0, 1, 0))",
                    f"{prefix}XFROB = {prefix}XEXT.add_op_def(_he.OpDef(\"frob\", signature=_he.OpDefSig("
                    "_ht.FunctionType([_int_t(6)], [_int_t(6)])), description=\"demo op\"))", "",
                    f"@hugr_op(lambda ty, inst, ctx: _hops.ExtOp({prefix}XFROB, ty, []))",
                    f"def {prefix}frob(x: int) -> int: ...", "",
                    ]
            body_ext = f"{prefix}frob(x) + 1"
            if ch.draw(2, "second_ext"):
                # ops of two third-party extensions that are registered nowhere
                src += [f"@hugr_op(lambda ty, inst, ctx: _hops.Custom(\"tick\", ty, extension=\"acme.clock\"))",
                        f"def {prefix}tick(x: int) -> int: ...", "",
                        f"@hugr_op(lambda ty, inst, ctx: _hops.Custom(\"draw\", ty, extension=\"acme.rng\"))",
                        f"def {prefix}draw(x: int) -> int: ...", ""]
                body_ext = f"{prefix}frob({prefix}tick({prefix}draw(x))) + 1"
            src += ["@guppy", f"def {prefix}uses_ext(x: int) -> int:", f"    return {body_ext}", ""]
            defs += [f"{prefix}uses_ext"]
            sigs.append(FnSig(f"{prefix}uses_ext", [("x", "int")], "int", "custext"))
        if fams["affine"]:
            # generic functions over an affine and over a copyable type variable whose
            # dangling values have types that render alike (Option[$0], Either[$0, int])
            src += [f"{prefix}AT = guppy.type_var(\"{prefix}AT\", copyable=False, droppable=True)",
                    f"{prefix}CT = guppy.type_var(\"{prefix}CT\")", "",
                    "@guppy", f"def {prefix}aff_consume(x: Option[{prefix}AT] @owned) -> None:", "    pass", "",
                    "@guppy", f"def {prefix}cop_first(x: {prefix}CT, y: Option[{prefix}CT]) -> {prefix}CT:",
                    "    return x", "",
                    "@guppy", f"def {prefix}aff_either(x: Either[{prefix}AT, int] @owned) -> None:", "    pass", "",
                    "@guppy", f"def {prefix}cop_either(x: int, y: Either[{prefix}CT, int]) -> int:",
                    "    return x", ""]
            order = [f"{prefix}aff_consume", f"{prefix}cop_first", f"{prefix}aff_either", f"{prefix}cop_either"]
            defs += order if ch.draw(2, "affine_order") else order[::-1]
        if fams["gstruct"]:
            # a generic struct (3.12 syntax, implicit self) with several methods,
            # instantiated at two types: several monomorphic instances per method
            nm = ch.rng_int(1, 3, "gs_methods")
            meths = [("first", "", "int", "self.b"), ("second", ", d: int", "int", "self.b + d"),
                     ("third", "", f"{prefix}GT", "self.a")][:nm]
            src += ["@guppy.struct", f"class {prefix}GS[{prefix}GT: (Copy, Drop)]:", f"    a: {prefix}GT",
                    "    b: int"]
            for mname, extra, ret, body in meths:
                src += ["    @guppy", f"    def {mname}(self{extra}) -> {ret}:", f"        return {body}"]
            t1, t2 = ch.pick((("1.5", "True"), ("2", "0.5"), ("(1, True)", "3")), "gs_insts")
            calls = {"first": "{v}.first()", "second": "{v}.second(2)", "third": "{v}.b"}
            src += ["", "@guppy", f"def {prefix}usegs(x: int) -> int:", f"    gs1 = {prefix}GS({t1}, x)",
                    f"    gs2 = {prefix}GS({t2}, x + 1)"]
            if nm == 3:
                src += ["    gs3 = gs1.third()"]
            src += ["    return " + " + ".join(calls[m[0]].format(v=v) for m in meths for v in ("gs1", "gs2")),
                    ""]
            defs += [f"{prefix}GS", f"{prefix}usegs"]
            sigs.append(FnSig(f"{prefix}usegs", [("x", "int")], "int", "gstruct"))
        if fams["ctlist"]:
            vals = ("[3, 1, 4]", "[1.5, 2.5]", "[[1, 2], [3, 4]]", "[\"a\", \"bb\"]",
                    "[True, False]", "[(1, 2.0), (3, 4.0)]", "[0.0, -0.0]", "[-0.0, 1.0]",
                    "[1, 0]", "(-0.0, 0.0)")
            picked = [vals[(ch.draw(len(vals), "ctl_first") + j) % len(vals)]
                      for j in range(ch.rng_int(1, 4, "ctl_n"))]
            src += ["@guppy", f"def {prefix}ctl(i: int) -> int:"] + \
                [f"    cl{j} = comptime({v})" for j, v in enumerate(picked)] + \
                ["    ints = comptime([7, 8, 9])", "    return ints[0] + i", ""]
            defs.append(f"{prefix}ctl")
            sigs.append(FnSig(f"{prefix}ctl", [("i", "int")], "int", "ctlist"))
        if mistake and mistake["kind"] == "comptime_name_suggestion":
            src += [f"ctv_{c} = {j}" for j, c in enumerate("abcd"[: mistake["k"] + 1])] + [""]
        if mistake and mistake["kind"] == "uninferable_call":
            tv = ["A", "B", "C", "D"][: mistake["k"] + 1]
            uv = ["P", "Q", "R", "S"][: mistake["k"] + 1]
            src += ["@guppy.declare", f"def {prefix}hr_mk[{', '.join(tv)}]() -> tuple[{', '.join(tv)}]: ...", "",
                    "@guppy.declare",
                    f"def {prefix}hr_use[{', '.join(uv)}](x: tuple[{', '.join(f'Option[{u}]' for u in uv)}]) -> None: ...", ""]
            defs += [f"{prefix}hr_mk", f"{prefix}hr_use"]
        if mistake and mistake["kind"] == "declare_const_params":
            ps = ", ".join(f"{n}: {t}" for n, t in CONST_PARAMS[: mistake["k"] + 1])
            src += ["@guppy.declare", f"def {prefix}dcp[{ps}]() -> None: ...", ""]
            defs.append(f"{prefix}dcp")
        if mistake and mistake["kind"] == "struct_methods_override_fields":
            names = [f"m{c}" for c in "abcd"[: mistake["k"] + 1]]
            src += ["@guppy.struct", f"class {prefix}SOV:"]
            for nm in names:
                src += ["    @guppy", f"    def {nm}(self: \"{prefix}SOV\") -> int:", "        return 1", ""]
            src += [f"    {nm}: int" for nm in names] + ["", "@guppy",
                                                         f"def {prefix}sovfn(s: {prefix}SOV) -> int:",
                                                         "    return 1", ""]
            defs += [f"{prefix}SOV", f"{prefix}sovfn"]
        if ch.draw(2, "fam_inthelper") == 0 or self.params.get("int_helper"):
            # a plain int -> int helper: the shape nested functions may shadow
            src += ["@guppy", f"def {prefix}ih(x: int) -> int:", f"    return x + {ch.draw(5, 'ih_c')}", ""]
            defs.append(f"{prefix}ih")
            sigs.append(FnSig(f"{prefix}ih", [("x", "int")], "int", "fn"))
        if bad_structs:
            ps = ", ".join(f"s{j}: {st['name']}" for j, st in enumerate(self.structs))
            src += ["@guppy", f"def {prefix}sfn({ps}) -> int:", "    return 1", ""]
            defs.append(f"{prefix}sfn")
        n_funcs = n_funcs if n_funcs is not None else ch.rng_int(1, 4, "n_funcs")
        bad_fn = ch.draw(n_funcs + 1, "mistake_fn") if mistake else -1
        for fi in range(n_funcs):
            params = [(f"a{j}", ch.pick(SCALARS + ("tuple[int, bool]",), "pty"))
                      for j in range(ch.draw(3, "n_params"))]
            sig = FnSig(f"{prefix}fn{fi}", params, ch.pick(SCALARS + ("None",), "rty"))
            b = Body(self, sig, list(sigs), max_stmts, max_depth)
            body = b.function(mistake if fi == bad_fn and mistake["kind"] not in MODULE_LEVEL
                              else None)
            src += ["@guppy", f"def {sig.name}({', '.join(f'{p}: {t}' for p, t in params)}) -> {sig.ret}:"] \
                + ind(body) + [""]
            defs.append(sig.name)
            sigs.append(sig)
        # entry point
        sig = FnSig(f"{prefix}main", [], "None")
        if mistake and mistake["kind"] == "entry_has_args":
            sig.params = [("a0", "int")]
        b = Body(self, sig, list(sigs), max_stmts, max_depth)
        body = b.function(mistake if bad_fn == n_funcs and mistake["kind"] not in MODULE_LEVEL
                          else None)
        if mistake and mistake["kind"] == "comptime_expr_raises":
            body.insert(0, "cz = comptime(1 // 0)")
        # make sure every family is reachable from main
        env = {p: t for p, t in sig.params}
        for s in sigs:
            if self.ch.draw(2, "use_" + s.kind) or s.kind in ("comptime", "ctarg2", "custext", "borrowcomp"):
                args = ", ".join(b.expr(env, t, 2) for _, t in s.params)
                body.append(f"{s.name}({args})")
        hdr = f"def {sig.name}({', '.join(f'{p}: {t}' for p, t in sig.params)}) -> None:"
        if mistake and mistake["kind"] == "declare_const_params":
            body.append(f"{prefix}dcp()")
        if mistake and mistake["kind"] == "struct_methods_override_fields":
            body.append(f"sov_ref = {prefix}sovfn")
        if mistake and mistake["kind"] == "entry_const_params":
            ps = ", ".join(f"{n}: {t}" for n, t in CONST_PARAMS[: mistake["k"] + 1])
            hdr = f"def {sig.name}[{ps}]() -> None:"
        if mistake and mistake["kind"] == "non_monomorphic_entry":
            src += [f"{prefix}U = guppy.type_var(\"{prefix}U\")", ""]
            hdr = f"def {sig.name}(a0: {prefix}U) -> None:"
        src += ["@guppy", hdr] + ind(body) + [""]
        defs.append(sig.name)
        fam_target = None
        if mistake and mistake["kind"] == "family_body_fails":
            # break the body of a helper that other definitions depend on (an overload
            # variant, a generic, a struct method, a qubit helper ...): the failure then
            # surfaces at dependency depth >= 1
            heads = [i for i, l in enumerate(src) if l.lstrip().startswith("def ")
                     and not l.rstrip().endswith("...") and not l.startswith(f"def {prefix}fn")
                     and not l.startswith(f"def {sig.name}") and not l.startswith(f"def {prefix}make_rep")
                     and i + 1 < len(src)]
            if heads:
                i = ch.pick(heads, "fam_target")
                pad = " " * (len(src[i]) - len(src[i].lstrip()) + 4)
                badline = ("zz_bad = undefined_in_family + 1", "zz_bad = 1 + (1, 2)",
                           "zz_bad: NoSuchFamTy = 1")[ch.draw(3, "fam_bad")]
                src.insert(i + 1, pad + badline)
                fam_target = src[i].split("def ")[1].split("(")[0].split("[")[0]
                if src[i].startswith("    "):     # a method or a factory product
                    fam_target = None
        bad = None
        if mistake:
            kind = mistake["kind"]
            if kind in ("entry_has_args", "non_monomorphic_entry", "comptime_expr_raises",
                        "entry_const_params", "declare_const_params"):
                bad = sig.name
            elif kind == "family_body_fails":
                bad = fam_target
            elif kind == "struct_methods_override_fields":
                bad = f"{prefix}sovfn"
            elif bad_structs:
                bad = f"{prefix}sfn"
            elif kind == "comptime_raises":
                bad = f"{prefix}ct" if fams["comptime"] else None
            elif bad_fn == n_funcs:
                bad = sig.name
            else:
                bad = f"{prefix}fn{bad_fn}"
        # a chain of thin wrappers around the failing definition: checking dep2 fails at
        # dependency depth 2 with nothing else pending (the failing body is the last item
        # of the engine's worklist), checking dep1 at depth 1
        lit = {"int": "1", "bool": "True", "float": "1.5", "tuple[int, bool]": "(1, True)"}
        bsig = next((x for x in sigs if x.name == bad and x.kind == "fn"), None) if bad else None
        if bsig is not None and all(t in lit for _, t in bsig.params) and ch.draw(3, "dep_chain"):
            args = ", ".join(lit[t] for _, t in bsig.params)
            src += ["@guppy", f"def {prefix}dep1() -> None:", f"    {bad}({args})", "",
                    "@guppy", f"def {prefix}dep2() -> None:", f"    {prefix}dep1()", ""]
            defs += [f"{prefix}dep1", f"{prefix}dep2"]
        return {"source": "\n".join(src) + "\n", "defs": defs, "entry": sig.name,
                "families": [k for k, v in fams.items() if v], "bad_def": bad}
