"""Warm parent ("zygote") of simulated runs.

Started by the driver as a fresh interpreter with a pinned environment (hash seed, ASLR
off, PYTHONPATH pointing at /repo's working tree, hook guard).  It imports the compiler
once, never compiles anything, and then forks one child per job, so every run starts from
the same process-global state and the same heap layout.  The zygote itself reads a single
byte per job (the child reads the job body), so its own heap does not drift.

Frames on the result fd:  1 byte kind, 4 byte big-endian length, payload.
  W ready   R result(json)   E harness exception in child (text)   X child died (status)
"""
from __future__ import annotations

import faulthandler
import gc
import importlib
import json
import os
import struct
import sys
import traceback

VERIF = os.path.dirname(os.path.dirname(os.path.abspath(__file__)))


def write_frame(fd: int, kind: bytes, payload: bytes) -> None:
    data = kind + struct.pack(">I", len(payload)) + payload
    view = memoryview(data)
    while view:
        n = os.write(fd, view)
        view = view[n:]


def read_exact(fd: int, n: int) -> bytes:
    out = b""
    while len(out) < n:
        chunk = os.read(fd, n - len(out))
        if not chunk:
            raise EOFError
        out += chunk
    return out


def child(mod, job_fd: int, res_fd: int) -> None:
    (n,) = struct.unpack(">I", read_exact(job_fd, 4))
    job = json.loads(read_exact(job_fd, n))
    faulthandler.enable()
    faulthandler.dump_traceback_later(float(job.get("cap", 120)), exit=True)
    try:
        res = mod.run_job(job)
        payload = json.dumps(res, default=str).encode()
        kind = b"R"
    except BaseException:  # noqa: BLE001 - harness failure, reported as such
        payload = traceback.format_exc().encode()
        kind = b"E"
    faulthandler.cancel_dump_traceback_later()
    write_frame(res_fd, kind, payload)


def immortalize() -> int:
    """Marks every object alive in the warm parent as immortal (CPython 3.12 refcount
    sentinel), so that children do not dirty - and copy - the parent's pages merely by
    taking references.  Pure performance measure for this sandbox, where copy-on-write
    faults are extremely expensive under parallel load; objects created later are not
    affected and no Python-visible behaviour changes (VERIF_IMMORTAL=0 turns it off)."""
    import ctypes
    if sys.version_info[:2] < (3, 12) or ctypes.sizeof(ctypes.c_ssize_t) != 8:
        return 0
    imm = 0xFFFFFFFF
    seen: set[int] = set()
    stack = gc.get_objects()
    from_address = ctypes.c_ssize_t.from_address
    n = 0
    while stack:
        o = stack.pop()
        i = id(o)
        if i in seen:
            continue
        seen.add(i)
        if o is seen or o is stack:
            continue
        from_address(i).value = imm
        n += 1
        if gc.is_tracked(o):
            stack.extend(gc.get_referents(o))
    return n


def main() -> None:
    prop_mod, job_fd, res_fd = sys.argv[1], int(sys.argv[2]), int(sys.argv[3])
    try:
        os.setsid()
    except OSError:
        pass
    sys.path.insert(0, VERIF)
    sys.setrecursionlimit(10000)
    import verif_compat  # noqa: F401

    mod = importlib.import_module(prop_mod)
    if hasattr(mod, "warm"):
        mod.warm()
    gc.collect()
    if os.environ.get("VERIF_IMMORTAL", "1") != "0":
        immortalize()
    gc.freeze()
    write_frame(res_fd, b"W", b"{}")
    while True:
        b = os.read(job_fd, 1)
        if not b:
            break
        pid = os.fork()
        if pid == 0:
            try:
                child(mod, job_fd, res_fd)
            finally:
                sys.stdout.flush()
                sys.stderr.flush()
                os._exit(0)
        _, st = os.waitpid(pid, 0)
        if st != 0:
            write_frame(res_fd, b"X", str(st).encode())


if __name__ == "__main__":
    main()
