"""Which property modules exist.  Driver-side only: must not import guppylang."""
import importlib

PROPS = {
    "C09": "sim.props.c09",
    "C10": "sim.props.c10",
    "C11": "sim.props.c11",
    "C23": "sim.props.c23",
    "C28": "sim.props.c28",
    "C33": "sim.props.c33",
}


def _manifest_checks():
    out = {}
    for pid, modname in PROPS.items():
        # property modules import guppylang lazily (inside functions), so this is cheap
        mod = importlib.import_module(modname)
        out[pid] = mod.MANIFEST
    return out


MANIFEST_CHECKS = _manifest_checks()
